//! C08: the local search only improves, in the documented priority order, up to a fixpoint.
//! Offline trace checker over the steps recorded by hook H1.

use crate::bridge::{Bridge, Obs};
use crate::orch::{guard, CaseOut, Ctx};
use crate::p_hist;
use crate::p_nbh;
use rapid_solve::heuristics::Solver;
use serde_json::json;
use solver::local_search::neighborhood::swaps::SwapInfo;
use solver::local_search::{build_local_search_solver, ScheduleWithInfo};
use solver::min_cost_flow_solver::MinCostFlowSolver;

pub fn vec_of(v: (i64, i64, i64, i128)) -> Vec<i128> {
    vec![v.0 as i128, v.1 as i128, v.2 as i128, v.3]
}

#[cfg(rssched_verif)]
pub fn case(ctx: &Ctx, idx: u64) -> CaseOut {
    let mut out = CaseOut::default();
    let (input, tag, profile, _rng) = {
        // instances with maintenance slots (the search only runs then)
        let mut rng = crate::rng::Rng::new(crate::rng::mix(&[ctx.seed, crate::rng::hash_str("ls"), idx]));
        let profile = *rng.pick(&[
            crate::gen::Profile::Maint,
            crate::gen::Profile::Maint,
            crate::gen::Profile::Depots,
            crate::gen::Profile::Mixed,
            crate::gen::Profile::Ties,
            crate::gen::Profile::Limits,
        ]);
        let max_dep = if ctx.thorough() { *rng.pick(&[5, 8, 14]) } else { *rng.pick(&[3, 5, 8]) };
        let mut opts = crate::gen::GenOpts::new(profile, max_dep);
        opts.force_slots = true;
        opts.rotation_rich = rng.chance(1, 3);
        let tag = format!("l{}c{}", ctx.seed, idx);
        let input = crate::gen::generate(&mut rng, &opts, &tag);
        (input, tag, profile.name(), rng)
    };
    let _ = p_hist::tour_of;
    let b = Bridge::new(&input).expect("bridge");
    out.count(&format!("profile.{}", profile), 1);
    if b.inst.trips.len() > 12 {
        crate::orch::announce_cpu_budget(600.0);
    }
    let net = b.net.clone();
    let start = match guard(|| MinCostFlowSolver::initialize(net.clone()).solve().improve_depots(None)) {
        Ok(s) => s,
        Err(p) => {
            out.viol("C06", &p.sig(), format!("start solution panicked: {}", p.message));
            out.inconclusive.push(format!("start solution panicked ({})", p.sig()));
            return out;
        }
    };
    let start_obs = Obs::of(&b, &start);
    solver::verif::start_recording();
    let result = guard(|| {
        build_local_search_solver(net.clone()).solve(ScheduleWithInfo::new(start.clone(), SwapInfo::NoSwap, "start".to_string()))
    });
    let steps = solver::verif::take_recording();
    let result = match result {
        Ok(r) => r,
        Err(p) => {
            out.viol("C06", &p.sig(), format!("local search panicked: {} at {}", p.message, p.location));
            out.inconclusive.push(format!("local search panicked ({})", p.sig()));
            out.witness = Some(json!({ "input": input }));
            return out;
        }
    };
    let result_sched = result.solution().get_schedule().clone();
    let result_obs = Obs::of(&b, &result_sched);
    let start_val = start_obs.true_objective(&b);
    let result_val = result_obs.true_objective(&b);
    out.count("searches", 1);
    out.count("accepted_steps", steps.len() as u64);
    let mut trace = Vec::new();
    let mut prev_new: Option<Obs> = None;
    let level_names = ["unserved_passengers", "maintenance_violation", "vehicle_count", "costs"];
    for (k, st) in steps.iter().enumerate() {
        let new_obs = Obs::of(&b, &st.new.0);
        let new_true = vec_of(new_obs.true_objective(&b));
        let new_rec: Vec<i128> = st.new.1.iter().map(|x| *x as i128).collect();
        if new_rec != new_true {
            out.viol(
                "C08",
                "objective_vector.not_true_values_in_documented_order",
                format!("step {}: the solver compared {:?} but the true (unserved, violation, vehicles, costs) of that schedule is {:?}", st.iteration, new_rec, new_true),
            );
        }
        let (prev_obs, prev_rec) = match &st.previous {
            Some((s, v)) => (Obs::of(&b, s), v.iter().map(|x| *x as i128).collect::<Vec<i128>>()),
            None => {
                out.viol("C08", "trace.step_without_previous", format!("step {} has no previous solution", st.iteration));
                continue;
            }
        };
        let prev_true = vec_of(prev_obs.true_objective(&b));
        if prev_rec != prev_true {
            out.viol(
                "C08",
                "objective_vector.not_true_values_in_documented_order",
                format!("step {}: previous solution compared as {:?}, true {:?}", st.iteration, prev_rec, prev_true),
            );
        }
        if !(new_true < prev_true) {
            out.viol(
                "C08",
                "step.not_strictly_improving",
                format!("step {}: {:?} -> {:?} is not a strict lexicographic improvement", st.iteration, prev_true, new_true),
            );
        } else {
            let lvl = (0..4).find(|&i| new_true[i] != prev_true[i]).unwrap();
            out.count(&format!("steps_decided_by.{}", level_names[lvl]), 1);
        }
        // gapless chain
        let expected_prev = if k == 0 { &start_obs } else { prev_new.as_ref().unwrap() };
        if &prev_obs != expected_prev {
            out.viol(
                "C08",
                if k == 0 { "trace.first_step_not_from_start_solution" } else { "trace.gap_between_steps" },
                format!("step {} does not continue from the schedule the previous step produced", st.iteration),
            );
        }
        trace.push(json!({"iteration": st.iteration, "previous": prev_true.iter().map(|x| x.to_string()).collect::<Vec<_>>(), "new": new_true.iter().map(|x| x.to_string()).collect::<Vec<_>>()}));
        prev_new = Some(new_obs);
    }
    match &prev_new {
        Some(last) => {
            if last != &result_obs {
                out.viol("C08", "trace.result_is_not_last_accepted_step", "solve() returned a schedule that differs from the last accepted step".to_string());
            }
        }
        None => {
            if start_obs != result_obs {
                out.viol("C08", "trace.result_differs_without_steps", "no step was accepted but the result differs from the start solution".to_string());
            }
        }
    }
    if result_val > start_val {
        out.viol("C08", "result.worse_than_start", format!("start {:?}, result {:?}", start_val, result_val));
    }
    // fixpoint: running the search again changes nothing
    solver::verif::start_recording();
    let again = guard(|| {
        build_local_search_solver(net.clone()).solve(ScheduleWithInfo::new(result_sched.clone(), SwapInfo::NoSwap, "again".to_string()))
    });
    let steps2 = solver::verif::take_recording();
    match again {
        Ok(r2) => {
            let o2 = Obs::of(&b, r2.solution().get_schedule());
            if !steps2.is_empty() || o2 != result_obs {
                out.viol(
                    "C08",
                    "fixpoint.second_run_changes_result",
                    format!("running the search on its own result accepted {} more steps: {:?} -> {:?}", steps2.len(), result_val, o2.true_objective(&b)),
                );
            }
        }
        Err(p) => {
            out.viol("C06", &p.sig(), format!("second local search panicked: {}", p.message));
        }
    }
    // independent of the solver's improver: no neighbour is better on true values
    match guard(|| p_nbh::better_neighbor(&b, net.clone(), &result_sched)) {
        Ok(Some((v, text))) => out.viol(
            "C08",
            "fixpoint.better_neighbor_exists",
            format!("result {:?} has the neighbour '{}' with {:?}", result_val, text, v),
        ),
        Ok(None) => out.count("fixpoints_confirmed_by_neighbourhood_scan", 1),
        Err(p) => out.inconclusive.push(format!("neighbourhood scan panicked ({})", p.sig())),
    }
    if !steps.is_empty() {
        out.nontrivial.push(tag.clone());
        out.count(&format!("trajectory_length.{}", match steps.len() { 1 => "1", 2..=3 => "2-3", 4..=7 => "4-7", _ => "8+" }), 1);
    } else {
        out.count("trajectory_length.0", 1);
    }
    if !out.viols.is_empty() {
        out.witness = Some(json!({"input": input, "trace": trace, "start": start_obs.to_json(&b), "result": result_obs.to_json(&b)}));
    }
    if idx % 19 == 0 || (steps.len() >= 3 && idx % 5 == 0) {
        out.sample = Some(json!({"instance_tag": tag, "profile": profile, "segments": b.inst.trips.len(), "trace": trace}));
    }
    out
}

#[cfg(not(rssched_verif))]
pub fn case(_ctx: &Ctx, _idx: u64) -> CaseOut {
    panic!("C08 needs the hooks: build with --cfg rssched_verif");
}
