//! C14: the min-cost-flow start solution is an optimum of the per-type covering circulation.

use crate::bridge::{Bridge, Obs};
use crate::gen::{self, GenOpts, Profile};
use crate::orch::{guard, CaseOut, Ctx};
use crate::rng::{hash_str, mix, Rng};
use refmodel::flow::optimum_for_type;
use refmodel::inst::DepotKind;
use refmodel::N;
use serde_json::json;
use solver::min_cost_flow_solver::MinCostFlowSolver;

/// depot totals do not couple the vehicle types
pub fn in_domain(inst: &refmodel::Inst) -> bool {
    if inst.types.len() == 1 {
        return true;
    }
    inst.depots.iter().all(|d| match d.kind {
        DepotKind::Given => {
            let mut sum = 0u64;
            for t in 0..inst.types.len() {
                match d.allowed[t] {
                    None => {}
                    Some(None) => return false, // type capacity = total: coupled
                    Some(Some(c)) => sum += c,
                }
            }
            d.capacity.map(|c| c >= sum).unwrap_or(true)
        }
        _ => true,
    })
}

pub fn case(ctx: &Ctx, idx: u64) -> CaseOut {
    let mut out = CaseOut::default();
    let mut rng = Rng::new(mix(&[ctx.seed, hash_str("flow"), idx]));
    let profile = *rng.pick(&[
        Profile::Ties,
        Profile::Ties,
        Profile::Mixed,
        Profile::Limits,
        Profile::Depots,
        Profile::Maint,
        Profile::NonMetric,
        Profile::Forbid,
        Profile::Degenerate,
    ]);
    let max_dep = if ctx.thorough() { *rng.pick(&[5, 10, 18, 30]) } else { *rng.pick(&[3, 6, 10]) };
    let mut opts = GenOpts::new(profile, max_dep);
    opts.decoupled_depots = true;
    let tag = format!("f{}c{}", ctx.seed, idx);
    let mut input = gen::generate(&mut rng, &opts, &tag);
    if idx % 40 == 7 {
        // a structure where one more vehicle would save many dead-head trips at once
        input = gen::chain_network(&mut rng, &tag);
        out.count("shifted_chain_networks", 1);
    }
    if idx % 40 == 13 {
        let ndep = rng.usize(20, 70);
        let (ws, ld) = (rng.chance(1, 2), rng.chance(1, 3));
        input = gen::line_network(&mut rng, &tag, ndep, ws, ld);
        out.count("busy_line_networks", 1);
    }
    if idx % 2000 == 77 {
        let ndep = rng.usize(260, 320);
        let (ws, ld) = (false, false);
        input = gen::line_network(&mut rng, &tag, ndep, ws, ld);
        out.count("full_day_timetables", 1);
        crate::orch::announce_cpu_budget(600.0);
    }
    let b = match Bridge::new(&input) {
        Ok(b) => b,
        Err(e) => panic!("bridge: {}", e),
    };
    let inst = &b.inst;
    out.count(&format!("profile.{}", profile.name()), 1);
    if !in_domain(inst) {
        out.count("skipped_depot_totals_couple_types", 1);
        return out;
    }
    let net = b.net.clone();
    let start = match guard(|| MinCostFlowSolver::initialize(net).solve()) {
        Ok(s) => s,
        Err(p) => {
            out.viol("C06", &p.sig(), format!("MinCostFlowSolver::solve panicked: {} at {}", p.message, p.location));
            out.inconclusive.push(format!("MinCostFlowSolver::solve panicked ({})", p.sig()));
            if let Ok(dir) = std::env::var("VERIF_DEBUG_PANIC_DIR") {
                let _ = std::fs::write(format!("{}/{}.json", dir, tag), serde_json::to_vec(&input).unwrap());
            }
            out.witness = Some(json!({ "input": input }));
            return out;
        }
    };
    let obs = Obs::of(&b, &start);
    let mut nontrivial = false;
    let mut sample_types = Vec::new();
    for t in 0..inst.types.len() {
        // slot allotment as observed
        let allot: Vec<(usize, u64)> = (0..inst.slots.len())
            .map(|s| {
                let c = obs
                    .formations
                    .get(&N::S(s))
                    .map(|f| f.iter().filter(|v| obs.vehicles.get(v).map(|x| x.vtype == Some(t)).unwrap_or(false)).count())
                    .unwrap_or(0);
                (s, c as u64)
            })
            .collect();
        let (opt_v, opt_c) = match optimum_for_type(inst, t, &allot) {
            Some(x) => x,
            None => {
                out.inconclusive.push("reference circulation infeasible (should be impossible)".to_string());
                continue;
            }
        };
        let tours: Vec<&crate::bridge::TourObs> = obs.vehicles.values().filter(|x| x.vtype == Some(t)).collect();
        let real_v = tours.len() as i64;
        let real_c: i128 = tours.iter().map(|x| inst.tour_costs(&x.nodes)).sum();
        let uses_tie = tours.iter().any(|x| x.nodes.windows(2).any(|w| inst.slack(w[0], w[1]) == Some(0)));
        let uses_overflow = tours.iter().any(|x| x.nodes.first() == Some(&N::SD(inst.overflow())));
        let chains = tours.iter().any(|x| x.activities().len() >= 2);
        if chains {
            nontrivial = true;
        }
        out.count("type_solves", 1);
        out.count("type_solves_with_chained_tour", chains as u64);
        out.count("type_solves_using_zero_slack_arc", uses_tie as u64);
        out.count("type_solves_using_overflow_depot", uses_overflow as u64);
        out.count("vehicles", real_v as u64);
        // is a tie arc available in the instance at all (for the D2 style defects)?
        if real_v != opt_v {
            let zero_costs = inst.costs.staff + inst.costs.service + inst.costs.maintenance + inst.costs.dead_head + inst.costs.idle == 0;
            out.viol(
                "C14",
                if real_v > opt_v {
                    if zero_costs { "vehicles.more_than_optimum.all_costs_zero" } else { "vehicles.more_than_optimum" }
                } else {
                    "vehicles.fewer_than_reference_optimum"
                },
                format!("type {}: start solution uses {} vehicles, independent optimum {} (cost {} vs {})", inst.types[t].id, real_v, opt_v, real_c, opt_c),
            );
        } else if real_c != opt_c {
            out.viol(
                "C14",
                if real_c > opt_c { "costs.above_optimum" } else { "costs.below_reference_optimum" },
                format!("type {}: {} vehicles, start solution costs {}, independent optimum {}", inst.types[t].id, real_v, real_c, opt_c),
            );
        }
        // bounds and unit conservation
        let mut formation_sum = 0usize;
        for i in 0..inst.trips.len() {
            if inst.trips[i].vtype != t {
                continue;
            }
            let k = obs.formations.get(&N::T(i)).map(|f| f.len()).unwrap_or(0) as u64;
            formation_sum += k as usize;
            let lim = inst.limit(i);
            let lo = lim.map(|l| inst.need(i).min(l)).unwrap_or(inst.need(i));
            if k < lo || lim.map(|l| k > l).unwrap_or(false) {
                out.viol(
                    "C14",
                    "trip.flow_out_of_bounds",
                    format!("{}: {} vehicles, bounds [{}, {:?}]", inst.trips[i].id, k, lo, lim),
                );
            }
            if lim.map(|l| k == l && inst.need(i) >= l).unwrap_or(false) {
                out.count("binding_formation_bounds", 1);
            }
        }
        for &(s, c) in &allot {
            formation_sum += c as usize;
        }
        let tour_len_sum: usize = tours.iter().map(|x| x.activities().len()).sum();
        if formation_sum != tour_len_sum {
            out.viol(
                "C14",
                "decode.units_lost_or_duplicated",
                format!("type {}: sum of formation sizes {} but sum of tour lengths {}", inst.types[t].id, formation_sum, tour_len_sum),
            );
        }
        sample_types.push(json!({"type": inst.types[t].id, "vehicles": real_v, "optimum_vehicles": opt_v, "costs": real_c.to_string(), "optimum_costs": opt_c.to_string()}));
    }
    // the start solution as a whole must be a consistent schedule
    let structural = crate::bridge::check_structure(&b, &obs);
    for f in structural.iter().filter(|f| f.clause.starts_with("formation.") || f.clause.starts_with("tour.")) {
        out.viol("C14", &format!("decode.{}", f.clause), f.detail.clone());
    }
    if nontrivial {
        out.nontrivial.push(tag.clone());
    }
    if !out.viols.is_empty() {
        out.witness = Some(json!({"input": input, "start_solution": obs.to_json(&b)}));
    }
    if idx % 41 == 3 {
        out.sample = Some(json!({"instance_tag": tag, "profile": profile.name(), "segments": inst.trips.len(), "per_type": sample_types}));
    }
    out
}
