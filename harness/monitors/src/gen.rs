//! Deterministic generator of valid instances in the documented input format.
//! Hostile on purpose inside the valid domain: time ties, zero shunting, scarce depots,
//! segment-only limits, singleton rotation cycles, degenerate shapes.

use crate::rng::Rng;
use serde_json::{json, Map, Value};

#[derive(Clone, Copy, Debug, PartialEq, Eq)]
pub enum Profile {
    Mixed,
    Ties,
    Limits,
    Depots,
    Maint,
    Forbid,
    NonMetric,
    Degenerate,
}

pub const PROFILES: [Profile; 8] = [
    Profile::Mixed,
    Profile::Ties,
    Profile::Limits,
    Profile::Depots,
    Profile::Maint,
    Profile::Forbid,
    Profile::NonMetric,
    Profile::Degenerate,
];

impl Profile {
    pub fn name(&self) -> &'static str {
        match self {
            Profile::Mixed => "mixed",
            Profile::Ties => "ties",
            Profile::Limits => "limits",
            Profile::Depots => "depots",
            Profile::Maint => "maint",
            Profile::Forbid => "forbid",
            Profile::NonMetric => "nonmetric",
            Profile::Degenerate => "degenerate",
        }
    }
    pub fn from_name(s: &str) -> Option<Profile> {
        PROFILES.iter().copied().find(|p| p.name() == s)
    }
}

#[derive(Clone, Debug)]
pub struct GenOpts {
    pub profile: Profile,
    /// upper bound on the number of departures
    pub max_departures: usize,
    /// force maintenance slots to be present (local search only runs then)
    pub force_slots: bool,
    /// force a single vehicle type or decoupled depot totals (C14 domain)
    pub decoupled_depots: bool,
    /// aim at several rotation cycles per type: few types, several slots with several tracks,
    /// a generous allowance (vehicles that visit a slot get a negative counter and start a cycle)
    pub rotation_rich: bool,
    /// force the "turnaround" regime (turning around takes longer than a detour)
    pub force_turnaround: bool,
}

impl GenOpts {
    pub fn new(profile: Profile, max_departures: usize) -> GenOpts {
        GenOpts {
            profile,
            max_departures,
            force_slots: false,
            decoupled_depots: false,
            rotation_rich: false,
            force_turnaround: false,
        }
    }
}

const DAY0: i64 = 19786 * 86400; // 2024-03-04T00:00:00

fn iso(t: i64) -> String {
    refmodel::time::format(t)
}

/// generate one instance; `tag` is woven into every id
pub fn generate(rng: &mut Rng, opts: &GenOpts, tag: &str) -> Value {
    let p = opts.profile;
    let ties = p == Profile::Ties || (p != Profile::Mixed && rng.chance(1, 6));
    let grid: i64 = if ties { *rng.pick(&[600, 900, 1800]) } else { 60 };

    // ---------------------------------------------------------------- locations
    let big = opts.max_departures > 20;
    let nloc = match p {
        Profile::Degenerate => rng.usize(1, 2),
        Profile::Ties => rng.usize(1, 3),
        _ if big => rng.usize(3, 9),
        _ => rng.usize(1, 5),
    };
    let locs: Vec<String> = (0..nloc).map(|i| format!("{}.L{}", tag, i)).collect();

    // ---------------------------------------------------------------- vehicle types
    let ntypes = match p {
        Profile::Degenerate => rng.usize(1, 2),
        _ if opts.rotation_rich => rng.usize(1, 2),
        _ if big => rng.usize(1, 4),
        _ => rng.usize(1, 3),
    };
    let mut types = Vec::new();
    let mut type_caps = Vec::new();
    for i in 0..ntypes {
        let capacity = rng.range(4, 30) as u64 * 10;
        let seats = if rng.chance(1, 8) {
            capacity
        } else {
            (capacity * rng.range(3, 9) as u64 / 10).max(1)
        };
        let limit: Option<u64> = match p {
            Profile::Limits => {
                if rng.chance(1, 2) {
                    Some(rng.range(1, 3) as u64)
                } else {
                    None
                }
            }
            _ => {
                if rng.chance(1, 3) {
                    Some(rng.range(1, 4) as u64)
                } else {
                    None
                }
            }
        };
        let mut t = Map::new();
        t.insert("id".into(), json!(format!("{}.T{}", tag, i)));
        t.insert("capacity".into(), json!(capacity));
        t.insert("seats".into(), json!(seats));
        match limit {
            Some(l) => {
                t.insert("maximalFormationCount".into(), json!(l));
            }
            None => {
                if rng.chance(1, 4) {
                    t.insert("maximalFormationCount".into(), Value::Null);
                }
            }
        }
        types.push(Value::Object(t));
        type_caps.push((capacity, seats, limit));
    }

    // ---------------------------------------------------------------- parameters
    // "turnaround" regime: turning around at a station takes longer than a whole detour over
    // another station (large minimal shunting time, tiny dead-head shunting and travel times,
    // activities shorter than the turnaround)
    let turnaround = opts.force_turnaround || (matches!(p, Profile::Mixed | Profile::NonMetric | Profile::Maint | Profile::Ties | Profile::Forbid) && rng.chance(1, 8));
    let shunt_min: i64 = match p {
        _ if turnaround => if ties { grid * rng.range(2, 4) } else { *rng.pick(&[600, 900, 1800]) },
        Profile::Ties => *rng.pick(&[0, 0, 0, grid]),
        _ => {
            if ties {
                *rng.pick(&[0, grid])
            } else {
                *rng.pick(&[0, 60, 120, 300])
            }
        }
    };
    let shunt_dh: i64 = match p {
        _ if turnaround => if ties { 0 } else { *rng.pick(&[0, 0, 60]) },
        Profile::Ties => *rng.pick(&[0, 0, grid]),
        _ => {
            if ties {
                *rng.pick(&[0, grid])
            } else {
                *rng.pick(&[0, 60, 300, 600])
            }
        }
    };
    let forbid: Option<bool> = match p {
        Profile::Forbid => Some(true),
        _ => match rng.below(8) {
            0 => Some(true),
            1 | 2 => Some(false),
            _ => None,
        },
    };

    // ---------------------------------------------------------------- dead-head matrices
    let mut durations = vec![vec![0i64; nloc]; nloc];
    let mut distances = vec![vec![0i64; nloc]; nloc];
    for i in 0..nloc {
        for k in 0..nloc {
            if i == k {
                continue;
            }
            if k < i && p != Profile::NonMetric && rng.chance(3, 4) {
                durations[i][k] = durations[k][i];
                distances[i][k] = distances[k][i];
                continue;
            }
            let d = if turnaround {
                if ties { grid * rng.range(0, 1) } else { rng.range(0, 4) * 60 }
            } else if ties {
                grid * rng.range(if p == Profile::NonMetric || p == Profile::Ties { 0 } else { 1 }, 4)
            } else if p == Profile::NonMetric && rng.chance(1, 5) {
                0
            } else {
                rng.range(5, 90) * 60
            };
            durations[i][k] = d;
            distances[i][k] = if (p == Profile::NonMetric || p == Profile::Degenerate) && rng.chance(1, 5) {
                0
            } else if ties || (p == Profile::Depots && rng.chance(1, 2)) {
                // equal distances between different pairs of locations (equidistant depots)
                *rng.pick(&[5000i64, 10000, 10000, 20000])
            } else {
                rng.range(1, 80) * 1000
            };
        }
    }
    // occasionally one connection that is longer than the planning horizon / than 1000 km (the
    // loader reduces such values and says so)
    if nloc >= 2 && (matches!(p, Profile::NonMetric | Profile::Mixed | Profile::Depots) || rng.chance(1, 3)) && rng.chance(1, 6) {
        let i = rng.usize(0, nloc - 1);
        let k = (i + rng.usize(1, nloc - 1)) % nloc;
        if rng.chance(2, 3) {
            durations[i][k] = rng.range(26, 40) * 3600;
        }
        if rng.chance(1, 2) {
            distances[i][k] = rng.range(1100, 3000) * 1000;
        }
    }
    // "indices" in a shuffled order, to exercise the index mapping
    let mut order: Vec<usize> = (0..nloc).collect();
    if rng.chance(1, 2) {
        rng.shuffle(&mut order);
    }
    let dh = json!({
        "indices": order.iter().map(|&i| locs[i].clone()).collect::<Vec<_>>(),
        "durations": order.iter().map(|&i| order.iter().map(|&k| durations[i][k]).collect::<Vec<_>>()).collect::<Vec<_>>(),
        "distances": order.iter().map(|&i| order.iter().map(|&k| distances[i][k]).collect::<Vec<_>>()).collect::<Vec<_>>(),
    });

    // ---------------------------------------------------------------- routes
    let nroutes = match p {
        Profile::Degenerate => rng.usize(1, 2),
        _ => rng.usize(1, 4),
    };
    struct RSeg {
        id: String,
        dur: i64,
        limit: Option<u64>,
        origin: usize,
        dest: usize,
    }
    struct Route {
        id: String,
        vt: usize,
        segs: Vec<RSeg>,
        first_origin: usize,
        last_dest: usize,
    }
    let mut routes_json = Vec::new();
    let mut routes: Vec<Route> = Vec::new();
    let unused_type = p == Profile::Degenerate && ntypes > 1 && rng.chance(1, 2);
    // route segment ids only have to be unique within their route
    let shared_segment_ids = rng.chance(1, 5);
    for r in 0..nroutes {
        let vt = if unused_type { 0 } else { rng.usize(0, ntypes - 1) };
        let nseg = if p == Profile::Degenerate { rng.usize(1, 2) } else { rng.usize(1, 3) };
        let mut cur = rng.usize(0, nloc - 1);
        let first_origin = cur;
        let mut segs = Vec::new();
        let mut segs_json = Vec::new();
        for s in 0..nseg {
            let dest = if p == Profile::Degenerate && rng.chance(1, 3) {
                cur
            } else {
                rng.usize(0, nloc - 1)
            };
            let dur = if turnaround {
                if ties { grid } else { rng.range(1, 6) * 60 }
            } else if ties {
                grid * rng.range(1, 6)
            } else {
                rng.range(10, 120) * 60
            };
            let dist = if p == Profile::Degenerate && rng.chance(1, 3) {
                0
            } else {
                rng.range(1, 120) * 1000
            };
            let limit: Option<u64> = match p {
                Profile::Limits => {
                    if rng.chance(1, 2) {
                        Some(rng.range(1, 3) as u64)
                    } else {
                        None
                    }
                }
                _ => {
                    if rng.chance(1, 4) {
                        Some(rng.range(1, 3) as u64)
                    } else {
                        None
                    }
                }
            };
            let id = if shared_segment_ids { format!("{}.seg{}", tag, s) } else { format!("{}.R{}.s{}", tag, r, s) };
            let mut sj = Map::new();
            sj.insert("id".into(), json!(id));
            sj.insert("order".into(), json!(s));
            sj.insert("origin".into(), json!(locs[cur]));
            sj.insert("destination".into(), json!(locs[dest]));
            sj.insert("distance".into(), json!(dist));
            sj.insert("duration".into(), json!(dur));
            if let Some(l) = limit {
                sj.insert("maximalFormationCount".into(), json!(l));
            } else if rng.chance(1, 5) {
                sj.insert("maximalFormationCount".into(), Value::Null);
            }
            segs_json.push(Value::Object(sj));
            segs.push(RSeg { id, dur, limit, origin: cur, dest });
            cur = dest;
        }
        // the array order of a route's segments carries no meaning ("order" does)
        if segs_json.len() >= 2 && rng.chance(1, 5) {
            rng.shuffle(&mut segs_json);
        }
        let id = format!("{}.R{}", tag, r);
        routes_json.push(json!({
            "id": id,
            "vehicleType": format!("{}.T{}", tag, vt),
            "segments": segs_json,
        }));
        routes.push(Route { id, vt, segs, first_origin, last_dest: cur });
    }

    let ndep = rng.usize(1, opts.max_departures.max(1));
    // a quarter of the instances start on another calendar day (leap day ahead, turn of the
    // year / century, beyond 2038, the 9th of a month or the end of September: without zero
    // padding "9" sorts after "10" as a string); one in twelve spans several days
    let day0: i64 = if rng.chance(1, 4) { *rng.pick(&[19781i64, 19722, 20147, 11015, 24854, 47480, 19791, 19791, 19996, 10956]) * 86400 } else { DAY0 };
    let window_start = day0 + rng.range(0, 8) * 3600;
    let window_len: i64 = if rng.chance(1, 12) {
        rng.range(30, 100) * 3600
    } else if ndep > 12 {
        18 * 3600
    } else {
        rng.range(2, 14) * 3600
    };
    // ---------------------------------------------------------------- maintenance
    let with_slots = opts.force_slots
        || opts.rotation_rich
        || match p {
            Profile::Maint => true,
            Profile::Degenerate => rng.chance(1, 3),
            _ => rng.chance(1, 2),
        };
    let mut slots = Vec::new();
    let mut total_tracks = 0u64;
    // activities placed so far (start, end, start location, end location): later departures are
    // placed exactly at or around the connectivity thresholds of earlier ones
    let mut placed: Vec<(i64, i64, usize, usize)> = Vec::new();
    let tight = rng.chance(1, 2);
    if with_slots {
        let nslots = match p {
            _ if opts.rotation_rich => rng.usize(2, 4),
            Profile::Maint => rng.usize(1, 4),
            _ => rng.usize(1, 2),
        };
        let chained = p == Profile::Maint && rng.chance(1, 3);
        let mut chain_end: Option<(i64, usize)> = None;
        for m in 0..nslots {
            let mut start = window_start - 4 * 3600 + rng.range(0, (window_len + 6 * 3600) / grid) * grid;
            let mut len = if turnaround {
                if ties { grid } else { rng.range(1, 5) * 60 }
            } else if ties {
                grid * rng.range(1, 8)
            } else {
                rng.range(30, 240) * 60
            };
            let mut l = rng.usize(0, nloc - 1);
            if chained {
                // short slots one after the other at one location: a vehicle can visit several
                len = if ties { grid } else { rng.range(20, 60) * 60 };
                if let Some((e, cl)) = chain_end {
                    if nloc >= 2 && rng.chance(1, 2) {
                        // the next slot of the chain is at another location, reachable exactly
                        // at / just around the dead-head threshold
                        l = (cl + rng.usize(1, nloc - 1)) % nloc;
                        let off = if ties { *rng.pick(&[0, shunt_dh, 2 * shunt_dh]) } else { *rng.pick(&[0, shunt_dh, 2 * shunt_dh, (2 * shunt_dh - 60).max(0), 2 * shunt_dh + 60]) };
                        start = e + durations[cl][l] + off;
                    } else {
                        l = cl;
                        start = e + shunt_min + if ties { 0 } else { rng.range(0, 3) * 600 };
                    }
                }
                chain_end = Some((start + len, l));
            }
            let tracks = if opts.rotation_rich { rng.range(2, 3) as u64 } else { rng.range(1, 3) as u64 };
            total_tracks += tracks;
            placed.push((start, start + len, l, l));
            slots.push(json!({
                "id": format!("{}.M{}", tag, m),
                "location": locs[l],
                "start": iso(start),
                "end": iso(start + len),
                "trackCount": tracks,
            }));
        }
    }
    // ---------------------------------------------------------------- departures
    let heavy = rng.chance(1, 4);
    let mut departures = Vec::new();
    let mut total_need: u64 = 0;
    let mut n_segments = 0usize;
    for d in 0..ndep {
        let route = &routes[rng.usize(0, routes.len() - 1)];
        let mut t = window_start + rng.range(0, window_len / grid) * grid;
        if tight && !placed.is_empty() && rng.chance(1, 2) {
            let total: i64 = route.segs.iter().map(|x| x.dur).sum::<i64>() + (route.segs.len() as i64 - 1) * shunt_min;
            // the maintenance slots come first in `placed`: every third tight placement refers
            // to one of them (connections from / to a slot have rules of their own)
            let n_slots_placed = slots.len().min(placed.len());
            let &(a_start, a_end, a_from, a_to) = if n_slots_placed > 0 && rng.chance(1, 3) { &placed[rng.usize(0, n_slots_placed - 1)] } else { rng.pick(&placed) };
            let offsets_same: Vec<i64> = if ties { vec![0, shunt_min] } else { vec![0, shunt_min, (shunt_min - 60).max(0), shunt_min + 60] };
            let offsets_diff: Vec<i64> = if ties {
                vec![0, shunt_dh, 2 * shunt_dh, shunt_min + shunt_dh]
            } else {
                vec![0, shunt_dh, 2 * shunt_dh, shunt_min + shunt_dh, (2 * shunt_dh - 60).max(0), 2 * shunt_dh + 60, shunt_min]
            };
            if rng.chance(1, 2) {
                // start right after the earlier activity
                let o = route.first_origin;
                let off = if a_to == o { *rng.pick(&offsets_same) } else { durations[a_to][o] + *rng.pick(&offsets_diff) };
                t = a_end + off;
            } else if route.segs.len() == 1 {
                // end right before the earlier activity
                let d = route.last_dest;
                let off = if d == a_from { *rng.pick(&offsets_same) } else { durations[d][a_from] + *rng.pick(&offsets_diff) };
                let cand = a_start - off - total;
                if cand > window_start - 6 * 3600 {
                    t = cand;
                }
            }
        }
        let (capacity, seats, tlimit) = type_caps[route.vt];
        let mut segs = Vec::new();
        for (s, rs) in route.segs.iter().enumerate() {
            if s > 0 {
                // a vehicle must be able to serve the segments in order
                let dwell = if ties {
                    shunt_min + if rng.chance(1, 2) { 0 } else { grid * rng.range(0, 2) }
                } else {
                    shunt_min + rng.range(0, 10) * 60
                };
                // keep on the grid
                let dwell = (dwell + grid - 1) / grid * grid;
                t += dwell.max(shunt_min);
            }
            let want = match rng.below(10) {
                0 => 0,
                1..=5 => 1,
                6..=7 => 2,
                8 => 3,
                _ => {
                    if heavy {
                        rng.range(4, 8) as u64
                    } else {
                        2
                    }
                }
            };
            let passengers = if want == 0 {
                0
            } else if rng.chance(1, 4) {
                want * capacity // exactly full
            } else {
                (want - 1) * capacity + rng.range(1, capacity as i64) as u64
            };
            let seated = match rng.below(6) {
                0 => 0,
                1 => passengers, // everybody wants to sit: seats decide
                _ => {
                    let s_cap = (want.max(1)) * seats;
                    rng.range(0, s_cap.min(passengers) as i64) as u64
                }
            };
            let need = {
                let p1 = passengers.max(1);
                ((p1 + capacity - 1) / capacity).max((seated + seats - 1) / seats)
            };
            let lim = match (tlimit, rs.limit) {
                (Some(a), Some(b)) => Some(a.min(b)),
                (Some(a), None) => Some(a),
                (None, b) => b,
            };
            total_need += lim.map(|l| need.min(l)).unwrap_or(need);
            segs.push(json!({
                "id": format!("{}.D{}.s{}", tag, d, s),
                "routeSegment": rs.id,
                "departure": iso(t),
                "passengers": passengers,
                "seated": seated,
            }));
            placed.push((t, t + rs.dur, rs.origin, rs.dest));
            t += rs.dur;
            n_segments += 1;
        }
        // a departure need not run the whole route (short turns) and the order in which it
        // lists its segments carries no meaning
        if segs.len() >= 2 && rng.chance(1, 6) {
            let a = rng.usize(0, segs.len() - 1);
            let b = rng.usize(a, segs.len() - 1);
            segs = segs[a..=b].to_vec();
        }
        if segs.len() >= 2 && rng.chance(1, 5) {
            if rng.chance(1, 2) {
                segs.reverse();
            } else {
                rng.shuffle(&mut segs);
            }
        }
        departures.push(json!({
            "id": format!("{}.D{}", tag, d),
            "route": route.id,
            "segments": segs,
        }));
    }

    let maintenance_param: Option<u64> = match if opts.rotation_rich { 3 + rng.below(2) } else { rng.below(if p == Profile::Maint { 5 } else { 6 }) } {
        0 => None,
        1 => Some(0),
        2 => Some(rng.range(1, 60) as u64 * 1000), // tight
        3 => Some(rng.range(50, 400) as u64 * 1000),
        _ => Some(rng.range(400, 30000) as u64 * 1000), // generous
    };

    // ---------------------------------------------------------------- depots
    let depots: Option<Vec<Value>> = {
        let mode = match p {
            Profile::Depots => rng.below(8) + 1, // never absent
            _ => rng.below(9),
        };
        match mode {
            0 | 3 | 5 => None,
            1 if p == Profile::Depots && rng.chance(1, 3) => Some(Vec::new()),
            _ => {
                let nd = if p == Profile::Depots { rng.usize(1, 6) } else { rng.usize(1, 4) };
                // several depots may share a location
                let shared_loc = if rng.chance(1, if p == Profile::Depots { 2 } else { 3 }) { Some(rng.usize(0, nloc - 1)) } else { None };
                let mut v = Vec::new();
                let generous = (total_need + total_tracks + 2) * 2;
                for d in 0..nd {
                    let capacity: u64 = if opts.decoupled_depots {
                        0 // fixed below
                    } else {
                        match rng.below(6) {
                            0 => 0,
                            1 => 1,
                            2 => rng.range(1, (total_need.max(1)) as i64) as u64, // scarce
                            _ => generous,
                        }
                    };
                    let mut allowed = Vec::new();
                    let mut sum_type_caps = 0u64;
                    for t in 0..ntypes {
                        if ntypes > 1 && rng.chance(1, 4) {
                            continue; // type not listed
                        }
                        let mut a = Map::new();
                        a.insert("vehicleType".into(), json!(format!("{}.T{}", tag, t)));
                        let explicit = opts.decoupled_depots || rng.chance(1, 2);
                        if explicit {
                            let c = match rng.below(4) {
                                0 => 0,
                                1 => 1,
                                2 => rng.range(1, (total_need.max(1)) as i64) as u64,
                                _ => generous,
                            };
                            sum_type_caps += c;
                            a.insert("capacity".into(), json!(c));
                        } else if rng.chance(1, 3) {
                            a.insert("capacity".into(), Value::Null);
                        }
                        allowed.push(Value::Object(a));
                    }
                    if rng.chance(1, 12) {
                        // a depot that admits no type at all
                        allowed.clear();
                        sum_type_caps = 0;
                    }
                    let capacity = if opts.decoupled_depots { sum_type_caps } else { capacity };
                    v.push(json!({
                        "id": format!("{}.P{}", tag, d),
                        "location": locs[match shared_loc { Some(l) if rng.chance(2, 3) => l, _ => rng.usize(0, nloc - 1) }],
                        "capacity": capacity,
                        "allowedTypes": allowed,
                    }));
                }
                Some(v)
            }
        }
    };

    // ---------------------------------------------------------------- costs
    let zero_costs = p == Profile::Degenerate && rng.chance(1, 4);
    // one instance in eight has cost coefficients two orders of magnitude larger (tour costs
    // beyond 2^31, schedule costs beyond 2^32)
    let large_costs = !zero_costs && rng.chance(1, 8);
    let mut costs = Map::new();
    if zero_costs {
        costs.insert("staff".into(), json!(0));
        costs.insert("serviceTrip".into(), json!(0));
        costs.insert("deadHeadTrip".into(), json!(0));
        costs.insert("idle".into(), json!(0));
    } else {
        let k = if large_costs { 100 } else { 1 };
        costs.insert("staff".into(), json!(rng.range(0, 200) * k));
        costs.insert("serviceTrip".into(), json!(rng.range(0, 100) * k));
        if rng.chance(2, 3) {
            costs.insert("maintenance".into(), json!(rng.range(0, 50) * k));
        }
        costs.insert("deadHeadTrip".into(), json!(rng.range(0, 600) * k));
        costs.insert("idle".into(), json!(rng.range(0, 50) * k));
    }

    let mut params = Map::new();
    if let Some(fb) = forbid {
        params.insert("forbidDeadHeadTrips".into(), json!(fb));
    }
    params.insert(
        "shunting".into(),
        json!({"minimalDuration": shunt_min, "deadHeadTripDuration": shunt_dh}),
    );
    if let Some(m) = maintenance_param {
        params.insert("maintenance".into(), json!({ "maximalDistance": m }));
    }
    params.insert("costs".into(), Value::Object(costs));

    let mut root = Map::new();
    root.insert("vehicleTypes".into(), Value::Array(types));
    root.insert(
        "locations".into(),
        Value::Array(locs.iter().map(|l| json!({ "id": l })).collect()),
    );
    if let Some(d) = depots {
        root.insert("depots".into(), Value::Array(d));
    }
    root.insert("routes".into(), Value::Array(routes_json));
    root.insert("departures".into(), Value::Array(departures));
    if with_slots {
        root.insert("maintenanceSlots".into(), Value::Array(slots));
    }
    root.insert("deadHeadTrips".into(), dh);
    root.insert("parameters".into(), Value::Object(params));
    let _ = n_segments;
    let mut root = Value::Object(root);
    // nested overnight slots: a long slot that starts before and ends after the slot that starts
    // last, and whose end - the latest instant of the instance - lies just behind a whole-day
    // boundary of the planning horizon
    if with_slots && rng.chance(1, 8) {
        if let Ok(inst) = refmodel::Inst::parse(&root) {
            let mut earliest = i64::MAX;
            let mut latest = i64::MIN;
            for i in 0..inst.trips.len() {
                earliest = earliest.min(inst.start(refmodel::N::T(i)));
                latest = latest.max(inst.end(refmodel::N::T(i)));
            }
            for i in 0..inst.slots.len() {
                earliest = earliest.min(inst.start(refmodel::N::S(i)));
                latest = latest.max(inst.end(refmodel::N::S(i)));
            }
            if earliest < latest {
                let days = (latest - earliest + 86399) / 86400;
                // a third: the span is an exact multiple of a day
                let long_end = earliest + days * 86400 + if rng.chance(1, 3) { 0 } else { rng.range(1, 120) * 60 };
                let long_start = (latest - rng.range(0, 4) * 3600).min(long_end - 4 * 3600);
                let l = rng.usize(0, nloc - 1);
                let l2 = rng.usize(0, nloc - 1);
                if let Some(ms) = root.get_mut("maintenanceSlots").and_then(|m| m.as_array_mut()) {
                    ms.push(json!({"id": format!("{}.Mlong", tag), "location": locs[l], "start": iso(long_start), "end": iso(long_end), "trackCount": rng.range(1, 2)}));
                    ms.push(json!({"id": format!("{}.Mnested", tag), "location": locs[l2], "start": iso(long_start + 1800), "end": iso(long_start + 1800 + rng.range(1, 4) * 1800), "trackCount": 1}));
                    if rng.chance(1, 2) {
                        rng.shuffle(ms);
                    }
                }
            }
        }
    }
    // one instance in five spells its timestamps differently
    if rng.chance(1, 5) {
        respell_timestamps(rng, &mut root);
    }
    // one instance in eight carries hostile ids
    if rng.chance(1, 8) {
        hostile_ids(rng, &mut root, tag);
    }
    // one instance in ten carries values at the far end of the format
    if rng.chance(1, 10) || std::env::var("VERIF_EXTREME_KIND").is_ok() {
        apply_extremes(rng, &mut root);
    }
    root
}

/// three locations where the direct connection X -> Z is much slower than the detour over Y,
/// trips at X and Z and a maintenance slot at Y in between: a vehicle can drive a -> slot -> c,
/// but a cannot reach c directly
pub fn gap_network(rng: &mut Rng, tag: &str) -> Value {
    let base = DAY0 + 8 * 3600;
    let shunt_min = *rng.pick(&[0i64, 60, 300]);
    let shunt_dh = *rng.pick(&[0i64, 60, 300]);
    let hop = rng.range(5, 30) * 60;
    let slow = rng.range(8, 30) * 3600;
    let a_start = base + rng.range(0, 4) * 900;
    let a_end = a_start + rng.range(1, 4) * 900;
    let m_start = a_end + hop + 2 * shunt_dh + rng.range(0, 2) * 600;
    let m_end = m_start + rng.range(1, 4) * 900;
    let c_start = m_end + hop + 2 * shunt_dh + rng.range(0, 2) * 600;
    let extra_start = c_start + 3600 + slow; // a trip that a CAN reach directly
    let t = |x: i64| refmodel::time::format(x);
    json!({
        "vehicleTypes": [{"id": format!("{}.V", tag), "capacity": 100, "seats": 60}],
        "locations": [{"id": format!("{}.X", tag)}, {"id": format!("{}.Y", tag)}, {"id": format!("{}.Z", tag)}],
        "routes": [
            {"id": format!("{}.rx", tag), "vehicleType": format!("{}.V", tag), "segments": [{"id": format!("{}.rxs", tag), "order": 0, "origin": format!("{}.X", tag), "destination": format!("{}.X", tag), "distance": 20000, "duration": a_end - a_start}]},
            {"id": format!("{}.rz", tag), "vehicleType": format!("{}.V", tag), "segments": [{"id": format!("{}.rzs", tag), "order": 0, "origin": format!("{}.Z", tag), "destination": format!("{}.Z", tag), "distance": 30000, "duration": 1800}]},
            {"id": format!("{}.rl", tag), "vehicleType": format!("{}.V", tag), "segments": [{"id": format!("{}.rls", tag), "order": 0, "origin": format!("{}.X", tag), "destination": format!("{}.X", tag), "distance": 50000, "duration": c_start + 1800 - a_start}]}
        ],
        "departures": [
            {"id": format!("{}.da", tag), "route": format!("{}.rx", tag), "segments": [{"id": format!("{}.a", tag), "routeSegment": format!("{}.rxs", tag), "departure": t(a_start), "passengers": 50, "seated": 20}]},
            {"id": format!("{}.dc", tag), "route": format!("{}.rz", tag), "segments": [{"id": format!("{}.c", tag), "routeSegment": format!("{}.rzs", tag), "departure": t(c_start), "passengers": 50, "seated": 20}]},
            {"id": format!("{}.dl", tag), "route": format!("{}.rl", tag), "segments": [{"id": format!("{}.l", tag), "routeSegment": format!("{}.rls", tag), "departure": t(a_start), "passengers": 50, "seated": 20}]},
            {"id": format!("{}.de", tag), "route": format!("{}.rz", tag), "segments": [{"id": format!("{}.e", tag), "routeSegment": format!("{}.rzs", tag), "departure": t(extra_start), "passengers": 50, "seated": 20}]}
        ],
        "maintenanceSlots": [{"id": format!("{}.m", tag), "location": format!("{}.Y", tag), "start": t(m_start), "end": t(m_end), "trackCount": 2}],
        "deadHeadTrips": {
            "indices": [format!("{}.X", tag), format!("{}.Y", tag), format!("{}.Z", tag)],
            "durations": [[0, hop, slow], [hop, 0, hop], [slow, hop, 0]],
            "distances": [[0, 9000, 400000], [9000, 0, 9000], [400000, 9000, 0]]
        },
        "parameters": {
            "shunting": {"minimalDuration": shunt_min, "deadHeadTripDuration": shunt_dh},
            "maintenance": {"maximalDistance": 500000},
            "costs": {"staff": 10, "serviceTrip": 20, "maintenance": 5, "deadHeadTrip": 100, "idle": 3}
        }
    })
}


/// "shifted chain": K morning trips that all overlap and K evening trips that all overlap on a
/// line of locations; morning trip i ends where evening trip i-1 starts, but evening trip i starts
/// one (slow) hop further. K vehicles suffice (each drives the slow hop), K+1 vehicles avoid
/// every dead-head trip: the fleet must stay minimal although one more vehicle would save K
/// dead-head trips at once.
pub fn chain_network(rng: &mut Rng, tag: &str) -> Value {
    let k = rng.usize(3, 14);
    let nloc = k + 3;
    let hop = rng.range(3, 9) * 3600;
    let far = 2 * hop;
    let m_start = DAY0 + rng.range(1, 3) * 3600;
    let m_dur = rng.range(1, 2) * 1800;
    let shunt_min = *rng.pick(&[0i64, 120]);
    let shunt_dh = *rng.pick(&[0i64, 300]);
    // evening trips are reachable over one hop but not over the far connection: a fleet of K has
    // to drive K slow hops, a fleet of K+1 none
    let e_start = m_start + m_dur + hop + 2 * shunt_dh + rng.range(0, 2) * 1800;
    let loc = |j: usize| format!("{}.L{}", tag, j);
    let locations: Vec<Value> = (0..nloc).map(|j| json!({ "id": loc(j) })).collect();
    let routes: Vec<Value> = (0..nloc - 1)
        .map(|j| {
            json!({"id": format!("{}.r{}", tag, j), "vehicleType": format!("{}.V", tag), "segments": [{
                "id": format!("{}.r{}.s", tag, j), "order": 0, "origin": loc(j), "destination": loc(j + 1),
                "distance": rng.range(10, 80) * 1000, "duration": m_dur}]})
        })
        .collect();
    let mut departures = Vec::new();
    for i in 1..=k {
        departures.push(json!({"id": format!("{}.M{}", tag, i), "route": format!("{}.r{}", tag, i - 1), "segments": [{
            "id": format!("{}.M{}.s", tag, i), "routeSegment": format!("{}.r{}.s", tag, i - 1),
            "departure": iso(m_start), "passengers": rng.range(1, 90), "seated": rng.range(0, 40)}]}));
        departures.push(json!({"id": format!("{}.E{}", tag, i), "route": format!("{}.r{}", tag, i + 1), "segments": [{
            "id": format!("{}.E{}.s", tag, i), "routeSegment": format!("{}.r{}.s", tag, i + 1),
            "departure": iso(e_start), "passengers": rng.range(1, 90), "seated": rng.range(0, 40)}]}));
    }
    let mut durations = Vec::new();
    let mut distances = Vec::new();
    for a in 0..nloc {
        let mut dr = Vec::new();
        let mut di = Vec::new();
        for b in 0..nloc {
            let hops = if a > b { a - b } else { b - a };
            let d = match hops {
                0 => 0,
                1 => hop,
                _ => far,
            };
            dr.push(d);
            di.push(d / 3600 * 40000);
        }
        durations.push(dr);
        distances.push(di);
    }
    let mut root = json!({
        "vehicleTypes": [{"id": format!("{}.V", tag), "capacity": 100, "seats": 50}],
        "locations": locations,
        "routes": routes,
        "departures": departures,
        "deadHeadTrips": {"indices": (0..nloc).map(loc).collect::<Vec<_>>(), "durations": durations, "distances": distances},
        "parameters": {
            "shunting": {"minimalDuration": shunt_min, "deadHeadTripDuration": shunt_dh},
            "costs": {"staff": rng.range(0, 100), "serviceTrip": rng.range(1, 60), "deadHeadTrip": rng.range(100, 600), "idle": rng.range(0, 30)}
        }
    });
    if rng.chance(1, 2) {
        root["depots"] = json!((0..nloc).map(|j| json!({"id": format!("{}.P{}", tag, j), "location": loc(j), "capacity": 50,
            "allowedTypes": [{"vehicleType": format!("{}.V", tag), "capacity": 50}]})).collect::<Vec<_>>());
    }
    root
}

/// a busy line: few stations, a departure every few minutes for many hours, dead-head trips
/// that are slower than the service trips and do not satisfy the triangle inequality. Tours get
/// long (dozens of activities), flow networks large (hundreds of trips of one type).
/// `long_distance`: service trips of 500-2500 km, so that whole tours exceed 10000 km.
pub fn line_network(rng: &mut Rng, tag: &str, ndep: usize, with_slots: bool, long_distance: bool) -> Value {
    let nloc = rng.usize(2, 5);
    let ntypes = if rng.chance(1, 4) { 2 } else { 1 };
    let loc = |j: usize| format!("{}.L{}", tag, j);
    let vt = |j: usize| format!("{}.T{}", tag, j);
    let headway = rng.range(2, 8) * 60;
    let start = DAY0 + rng.range(4, 7) * 3600;
    let shunt_min = *rng.pick(&[0i64, 60, 120]);
    let shunt_dh = *rng.pick(&[0i64, 60, 300]);
    // routes between neighbouring stations, both directions, per type
    let mut routes = Vec::new();
    let mut route_info: Vec<(String, String, i64)> = Vec::new(); // (route id, segment id, duration)
    for t in 0..ntypes {
        for j in 0..nloc {
            for dir in 0..2 {
                let (o, d) = if nloc == 1 {
                    (0, 0)
                } else if dir == 0 {
                    (j, (j + 1) % nloc)
                } else {
                    ((j + 1) % nloc, j)
                };
                let dur = rng.range(4, 25) * 60;
                let dist = if long_distance { rng.range(500, 2500) * 1000 } else { rng.range(3, 60) * 1000 };
                let rid = format!("{}.r{}_{}_{}", tag, t, j, dir);
                let sid = format!("{}.s", rid);
                routes.push(json!({"id": rid, "vehicleType": vt(t), "segments": [{
                    "id": sid, "order": 0, "origin": loc(o), "destination": loc(d), "distance": dist, "duration": dur}]}));
                route_info.push((rid, sid, dur));
            }
        }
    }
    let mut departures = Vec::new();
    let mut t_dep = start;
    for i in 0..ndep {
        let (rid, sid, _) = rng.pick(&route_info).clone();
        let passengers = match rng.below(10) {
            0 => 0,
            1 => rng.range(101, 190),
            _ => rng.range(1, 100),
        };
        departures.push(json!({"id": format!("{}.D{}", tag, i), "route": rid, "segments": [{
            "id": format!("{}.D{}.s", tag, i), "routeSegment": sid, "departure": iso(t_dep),
            "passengers": passengers, "seated": rng.range(0, passengers.min(50))}]}));
        t_dep += if rng.chance(1, 5) { 0 } else { headway } + rng.range(0, 2) * 60;
    }
    let horizon_end = t_dep + 3600;
    let mut durations = vec![vec![0i64; nloc]; nloc];
    let mut distances = vec![vec![0i64; nloc]; nloc];
    for a in 0..nloc {
        for b in 0..nloc {
            if a == b {
                continue;
            }
            let hops = if a > b { a - b } else { b - a };
            durations[a][b] = match rng.below(4) {
                0 => rng.range(2, 20) * 60,                 // as fast as a service trip
                1 => rng.range(20, 90) * 60,                // slower than the service trips
                2 => rng.range(2, 6) * 3600,                // hours: long blocks of a tour cannot reach
                _ => rng.range(5, 40) * 60 * hops as i64,
            };
            distances[a][b] = rng.range(1, 90) * 1000 * hops as i64;
        }
    }
    let types: Vec<Value> = (0..ntypes).map(|t| json!({"id": vt(t), "capacity": 100, "seats": 60})).collect();
    let mut root = json!({
        "vehicleTypes": types,
        "locations": (0..nloc).map(|j| json!({"id": loc(j)})).collect::<Vec<_>>(),
        "routes": routes,
        "departures": departures,
        "deadHeadTrips": {"indices": (0..nloc).map(loc).collect::<Vec<_>>(), "durations": durations, "distances": distances},
        "parameters": {
            "shunting": {"minimalDuration": shunt_min, "deadHeadTripDuration": shunt_dh},
            "costs": {"staff": rng.range(0, 100), "serviceTrip": rng.range(0, 60), "maintenance": rng.range(0, 20), "deadHeadTrip": rng.range(0, 600), "idle": rng.range(0, 30)}
        }
    });
    if rng.chance(1, 2) {
        let nd = rng.usize(1, 3);
        root["depots"] = json!((0..nd).map(|j| {
            let allowed: Vec<Value> = (0..ntypes).map(|t| json!({"vehicleType": vt(t), "capacity": 400})).collect();
            json!({"id": format!("{}.P{}", tag, j), "location": loc(rng.usize(0, nloc - 1)), "capacity": 1000, "allowedTypes": allowed})
        }).collect::<Vec<_>>());
    }
    if with_slots {
        let ns = rng.usize(1, 3);
        root["maintenanceSlots"] = json!((0..ns).map(|m| {
            let s0 = start + rng.range(0, ((horizon_end - start) / 600).max(1)) * 600;
            json!({"id": format!("{}.M{}", tag, m), "location": loc(rng.usize(0, nloc - 1)), "start": iso(s0), "end": iso(s0 + rng.range(2, 12) * 600), "trackCount": rng.range(1, 3)})
        }).collect::<Vec<_>>());
        root["parameters"]["maintenance"] = json!({"maximalDistance": if long_distance { rng.range(1000, 30000) * 1000 } else { rng.range(50, 3000) * 1000 }});
    } else if rng.chance(1, 2) {
        root["parameters"]["maintenance"] = json!({"maximalDistance": if long_distance { rng.range(1000, 30000) * 1000 } else { rng.range(50, 3000) * 1000 }});
    }
    root
}

/// one vehicle shuttles between two stations for hours (a trip every few minutes, with
/// excursions to a third station), while other trips start at a remote station that is hours away
/// from the shuttle stations - and farther from the excursion station than from the others, so
/// that along the shuttle tour the nodes that can reach such a trip do NOT form a prefix. Returns
/// the instance and the ids of the shuttle's departure segments in tour order.
pub fn shuttle_network(rng: &mut Rng, tag: &str) -> (Value, Vec<String>) {
    let loc = |j: usize| format!("{}.L{}", tag, j); // 0 = A, 1 = B, 2 = D (excursion), 3 = C (remote), 4 = E
    let nloc = 5;
    let shunt_min = *rng.pick(&[0i64, 60]);
    let shunt_dh = *rng.pick(&[0i64, 60, 120]);
    let mut durations = vec![vec![0i64; nloc]; nloc];
    let mut distances = vec![vec![0i64; nloc]; nloc];
    let class = |rng: &mut Rng, c: u64| -> i64 {
        match c {
            0 => rng.range(3, 12) * 60,
            1 => rng.range(20, 50) * 60,
            2 => rng.range(60, 200) * 60,
            _ => rng.range(4, 9) * 3600,
        }
    };
    for a in 0..nloc {
        for b in 0..nloc {
            if a != b {
                let c = rng.below(4);
                durations[a][b] = class(rng, c);
                distances[a][b] = rng.range(1, 200) * 1000;
            }
        }
    }
    // towards the remote stations: hours from the shuttle stations, (usually) even longer from D
    for remote in [3usize, 4] {
        durations[0][remote] = class(rng, 2);
        durations[1][remote] = class(rng, 2);
        let c = if rng.chance(3, 4) { 3 } else { 0 };
        durations[2][remote] = class(rng, c);
    }
    let mut routes = Vec::new();
    let mut route_of = std::collections::BTreeMap::new();
    for a in 0..nloc {
        for b in 0..nloc {
            let dur = rng.range(2, 7) * 60;
            let rid = format!("{}.r{}_{}", tag, a, b);
            routes.push(json!({"id": rid, "vehicleType": format!("{}.V", tag), "segments": [{
                "id": format!("{}.s", rid), "order": 0, "origin": loc(a), "destination": loc(b), "distance": rng.range(1, 30) * 1000, "duration": dur}]}));
            route_of.insert((a, b), (rid, dur));
        }
    }
    let start = DAY0 + rng.range(3, 6) * 3600;
    let n = rng.usize(40, 110);
    let mut departures = Vec::new();
    let mut shuttle_ids = Vec::new();
    let mut cur = 0usize;
    let mut t = start;
    let mut d_idx = 0usize;
    let mut add = |departures: &mut Vec<Value>, a: usize, b: usize, t: i64, d_idx: &mut usize| -> (String, i64) {
        let (rid, dur) = route_of[&(a, b)].clone();
        let id = format!("{}.D{}", tag, *d_idx);
        departures.push(json!({"id": id, "route": rid, "segments": [{
            "id": format!("{}.s", id), "routeSegment": format!("{}.s", rid), "departure": iso(t), "passengers": 40, "seated": 10}]}));
        *d_idx += 1;
        (format!("{}.s", id), dur)
    };
    for _ in 0..n {
        let next = match cur {
            0 => if rng.chance(1, 7) { 2 } else { 1 },
            1 => if rng.chance(1, 7) { 2 } else { 0 },
            _ => if rng.chance(1, 3) { 2 } else { rng.usize(0, 1) }, // a block of trips around D
        };
        let (sid, dur) = add(&mut departures, cur, next, t, &mut d_idx);
        shuttle_ids.push(sid);
        t += dur + shunt_min + rng.range(0, 2) * 60;
        cur = next;
    }
    let end = t;
    // the other trips: at the remote stations (and a few in the shuttle area), all day long
    for _ in 0..rng.usize(8, 20) {
        let a = *rng.pick(&[3usize, 3, 4, 4, 0, 1, 2]);
        let b = *rng.pick(&[3usize, 4, 0, 1]);
        let tt = start + rng.range(0, ((end - start) / 300).max(1)) * 300 + rng.range(0, 4) * 60;
        add(&mut departures, a, b, tt, &mut d_idx);
    }
    let root = json!({
        "vehicleTypes": [{"id": format!("{}.V", tag), "capacity": 100, "seats": 50}],
        "locations": (0..nloc).map(|j| json!({"id": loc(j)})).collect::<Vec<_>>(),
        "routes": routes,
        "departures": departures,
        "deadHeadTrips": {"indices": (0..nloc).map(loc).collect::<Vec<_>>(), "durations": durations, "distances": distances},
        "parameters": {
            "shunting": {"minimalDuration": shunt_min, "deadHeadTripDuration": shunt_dh},
            "maintenance": {"maximalDistance": rng.range(100, 5000) * 1000},
            "costs": {"staff": rng.range(0, 100), "serviceTrip": rng.range(0, 60), "maintenance": 5, "deadHeadTrip": rng.range(0, 600), "idle": rng.range(0, 30)}
        }
    });
    (root, shuttle_ids)
}

/// "turnaround" structure: turning around at station X takes `minimalDuration` (20-40 min), but
/// a detour over station Y (short dead-heads, tiny dead-head shunting, a short activity S at Y)
/// fits into less. Triples P (ends at X), S (at Y), N (starts at X) with N.start - P.end placed
/// just below / at / above the turnaround time: P -> S -> N is a valid tour, P -> N is not, so S
/// must not be removable from it.
pub fn turnaround_network(rng: &mut Rng, tag: &str) -> Value {
    let loc = |j: usize| format!("{}.L{}", tag, j); // 0 = X, 1 = Y, 2 = W
    let nloc = 3;
    let shunt_min = rng.range(20, 40) * 60;
    let shunt_dh = *rng.pick(&[0i64, 0, 30, 60]);
    let mut durations = vec![vec![0i64; nloc]; nloc];
    let mut distances = vec![vec![0i64; nloc]; nloc];
    for a in 0..nloc {
        for b in 0..nloc {
            if a != b {
                durations[a][b] = rng.range(0, 4) * 60;
                distances[a][b] = rng.range(0, 9) * 1000;
            }
        }
    }
    let mut routes = Vec::new();
    let mut route_of = std::collections::BTreeMap::new();
    for a in 0..nloc {
        for b in 0..nloc {
            let dur = rng.range(1, 5) * 60;
            let rid = format!("{}.r{}_{}", tag, a, b);
            routes.push(json!({"id": rid, "vehicleType": format!("{}.V", tag), "segments": [{
                "id": format!("{}.s", rid), "order": 0, "origin": loc(a), "destination": loc(b), "distance": rng.range(1, 30) * 1000, "duration": dur}]}));
            route_of.insert((a, b), (rid, dur));
        }
    }
    let mut departures = Vec::new();
    let mut slots = Vec::new();
    let mut d_idx = 0usize;
    let mut add = |departures: &mut Vec<Value>, a: usize, b: usize, t: i64| -> i64 {
        let (rid, dur) = route_of[&(a, b)].clone();
        let id = format!("{}.D{}", tag, d_idx);
        departures.push(json!({"id": id, "route": rid, "segments": [{
            "id": format!("{}.s", id), "routeSegment": format!("{}.s", rid), "departure": iso(t), "passengers": 40, "seated": 10}]}));
        d_idx += 1;
        dur
    };
    let mut t = DAY0 + 6 * 3600;
    for k in 0..rng.usize(1, 4) {
        // P: W -> X
        let from = *rng.pick(&[2usize, 1, 0]);
        let p_dur = add(&mut departures, from, 0, t);
        let p_end = t + p_dur;
        // S at Y: as early as the rules allow (+ a little slack)
        let s_start = p_end + durations[0][1] + 2 * shunt_dh + rng.range(0, 2) * 60;
        let s_end;
        if rng.chance(1, 3) {
            let len = rng.range(1, 5) * 60;
            slots.push(json!({"id": format!("{}.M{}", tag, k), "location": loc(1), "start": iso(s_start), "end": iso(s_start + len), "trackCount": rng.range(1, 2)}));
            s_end = s_start + len;
        } else {
            let to = *rng.pick(&[1usize, 1, 2]);
            let d = add(&mut departures, 1, to, s_start);
            s_end = s_start + d;
            // the way back to X starts where S ends
            if to != 1 {
                // keep the formula below right: dead-head from `to`
                let back = s_end + durations[to][0] + 2 * shunt_dh;
                let n_start = back.max(p_end + 60) + rng.range(0, 2) * 60;
                let n_start = match rng.below(4) {
                    0 => n_start.max(p_end + shunt_min),      // control: turning around is possible
                    1 => n_start.max(p_end + shunt_min - 60), // just too short
                    _ => n_start,
                };
                let to2 = *rng.pick(&[2usize, 1, 0]);
                let n_dur = add(&mut departures, 0, to2, n_start);
                t = n_start + n_dur + rng.range(0, 30) * 60;
                continue;
            }
        }
        let back = s_end + durations[1][0] + 2 * shunt_dh;
        let n_start = back.max(p_end + 60) + rng.range(0, 2) * 60;
        let n_start = match rng.below(4) {
            0 => n_start.max(p_end + shunt_min),
            1 => n_start.max(p_end + shunt_min - 60),
            _ => n_start,
        };
        let to2 = *rng.pick(&[2usize, 1, 0]);
        let n_dur = add(&mut departures, 0, to2, n_start);
        t = n_start + n_dur + rng.range(0, 30) * 60;
    }
    // a few unrelated trips
    for _ in 0..rng.usize(0, 3) {
        let a = rng.usize(0, 2);
        let b = rng.usize(0, 2);
        let tt = DAY0 + 6 * 3600 + rng.range(0, 180) * 60;
        add(&mut departures, a, b, tt);
    }
    let mut root = json!({
        "vehicleTypes": [{"id": format!("{}.V", tag), "capacity": 100, "seats": 50}],
        "locations": (0..nloc).map(|j| json!({"id": loc(j)})).collect::<Vec<_>>(),
        "routes": routes,
        "departures": departures,
        "deadHeadTrips": {"indices": (0..nloc).map(loc).collect::<Vec<_>>(), "durations": durations, "distances": distances},
        "parameters": {
            "shunting": {"minimalDuration": shunt_min, "deadHeadTripDuration": shunt_dh},
            "maintenance": {"maximalDistance": rng.range(10, 500) * 1000},
            "costs": {"staff": rng.range(0, 100), "serviceTrip": rng.range(0, 60), "maintenance": 5, "deadHeadTrip": rng.range(0, 600), "idle": rng.range(0, 30)}
        }
    });
    if !slots.is_empty() {
        root["maintenanceSlots"] = json!(slots);
    }
    root
}

/// "depot squeeze": station X has several co-located depots with scarce capacities, station Y a
/// depot that is nearer to the trips in seconds but farther in metres. The flow (seconds) parks
/// vehicles at Y, the depot improvement (metres) moves them to X, where the co-located depots
/// fill up one after the other while vehicles that already start there are re-assigned too.
pub fn depot_squeeze_network(rng: &mut Rng, tag: &str) -> Value {
    let loc = |j: usize| format!("{}.L{}", tag, j); // 0 = X, 1 = Y, 2 = Z (trips start), 3 = W
    let nloc = 4;
    let ntypes = rng.usize(1, 2);
    let vt = |j: usize| format!("{}.T{}", tag, j);
    let mut durations = vec![vec![0i64; nloc]; nloc];
    let mut distances = vec![vec![0i64; nloc]; nloc];
    for a in 0..nloc {
        for b in 0..nloc {
            if a != b {
                durations[a][b] = rng.range(10, 40) * 60;
                distances[a][b] = rng.range(10, 60) * 1000;
            }
        }
    }
    // Y is near in time and far in space, X the other way round
    durations[1][2] = rng.range(2, 8) * 60;
    distances[1][2] = rng.range(60, 90) * 1000;
    durations[0][2] = rng.range(20, 40) * 60;
    distances[0][2] = rng.range(1, 9) * 1000;
    if rng.chance(1, 2) {
        durations[3][1] = durations[1][2];
        distances[3][1] = distances[1][2];
        durations[3][0] = durations[0][2];
        distances[3][0] = distances[0][2];
    }
    let n = rng.usize(3, 9);
    let mut routes = Vec::new();
    for t in 0..ntypes {
        routes.push(json!({"id": format!("{}.r{}", tag, t), "vehicleType": vt(t), "segments": [{
            "id": format!("{}.r{}.s", tag, t), "order": 0, "origin": loc(2), "destination": loc(3), "distance": rng.range(5, 60) * 1000, "duration": rng.range(10, 40) * 60}]}));
        routes.push(json!({"id": format!("{}.b{}", tag, t), "vehicleType": vt(t), "segments": [{
            "id": format!("{}.b{}.s", tag, t), "order": 0, "origin": loc(3), "destination": loc(2), "distance": rng.range(5, 60) * 1000, "duration": rng.range(10, 40) * 60}]}));
    }
    let t0 = DAY0 + 7 * 3600;
    let mut departures = Vec::new();
    let together = rng.chance(1, 2);
    for i in 0..n {
        let t = rng.usize(0, ntypes - 1);
        let when = if together { t0 } else { t0 + rng.range(0, 3) * 300 };
        let (route, pax) = if rng.chance(1, 5) { (format!("{}.b{}", tag, t), 150) } else { (format!("{}.r{}", tag, t), *rng.pick(&[50, 50, 150, 250])) };
        departures.push(json!({"id": format!("{}.D{}", tag, i), "route": route, "segments": [{
            "id": format!("{}.D{}.s", tag, i), "routeSegment": format!("{}.s", route), "departure": iso(when), "passengers": pax, "seated": 10}]}));
    }
    let cap_list = |rng: &mut Rng, total: u64| -> Vec<Value> {
        let mut v = Vec::new();
        for t in 0..ntypes {
            if ntypes > 1 && !rng.chance(4, 5) {
                continue;
            }
            v.push(match rng.below(3) {
                0 => json!({"vehicleType": vt(t)}),
                1 => json!({"vehicleType": vt(t), "capacity": rng.range(1, total.max(1) as i64)}),
                _ => json!({"vehicleType": vt(t), "capacity": total}),
            });
        }
        v
    };
    let mut depots = Vec::new();
    let n_at_x = rng.usize(2, 4);
    for d in 0..n_at_x {
        let total = if d + 1 == n_at_x && rng.chance(2, 3) { 40 } else { rng.range(1, 4) as u64 };
        let allowed = cap_list(rng, total);
        depots.push(json!({"id": format!("{}.PX{}", tag, d), "location": loc(0), "capacity": total, "allowedTypes": allowed}));
    }
    let e_total = rng.range(1, n as i64) as u64;
    let allowed = cap_list(rng, e_total);
    depots.push(json!({"id": format!("{}.PY", tag), "location": loc(1), "capacity": e_total, "allowedTypes": allowed}));
    if rng.chance(1, 2) {
        rng.shuffle(&mut depots);
    }
    let mut root = json!({
        "vehicleTypes": (0..ntypes).map(|t| json!({"id": vt(t), "capacity": 100, "seats": 60})).collect::<Vec<_>>(),
        "locations": (0..nloc).map(|j| json!({"id": loc(j)})).collect::<Vec<_>>(),
        "depots": depots,
        "routes": routes,
        "departures": departures,
        "deadHeadTrips": {"indices": (0..nloc).map(loc).collect::<Vec<_>>(), "durations": durations, "distances": distances},
        "parameters": {
            "shunting": {"minimalDuration": *rng.pick(&[0i64, 120]), "deadHeadTripDuration": *rng.pick(&[0i64, 300])},
            "costs": {"staff": rng.range(0, 100), "serviceTrip": rng.range(0, 60), "maintenance": 5, "deadHeadTrip": rng.range(50, 600), "idle": rng.range(0, 30)}
        }
    });
    if rng.chance(1, 2) {
        root["maintenanceSlots"] = json!([{"id": format!("{}.M0", tag), "location": loc(rng.usize(0, 3)), "start": iso(t0 + 3 * 3600), "end": iso(t0 + 4 * 3600), "trackCount": rng.range(1, 3)}]);
        root["parameters"]["maintenance"] = json!({"maximalDistance": rng.range(10, 400) * 1000});
    }
    root
}

/// hostile ids: pairs of routes (and pairs of departures) whose (parent id, child id) pairs
/// collide under concatenation with a separator - route `P` with segment `Q_0` versus route `P_Q`
/// with segment `0` - plus ids that are prefixes of each other and ids shared across namespaces
/// (a location named like a vehicle type), and ids with multi-byte UTF-8 characters. Every id
/// stays unique within its own namespace and keeps the instance tag as prefix.
pub fn hostile_ids(rng: &mut Rng, x: &mut Value, tag: &str) -> bool {
    let sep = *rng.pick(&["_", "-", ".", ":", "/", "|", " ", ""]);
    let mut changed = false;
    // ---- routes and their segments
    // applied at most once per instance (a second application would hand out the same ids again)
    let already = x["routes"].as_array().map(|a| a.iter().any(|r| r["id"].as_str() == Some(&format!("{}.K", tag)))).unwrap_or(false)
        || x["departures"].as_array().map(|a| a.iter().any(|d| d["id"].as_str() == Some(&format!("{}.J", tag)))).unwrap_or(false);
    if already {
        return false;
    }
    let nroutes = x["routes"].as_array().map(|a| a.len()).unwrap_or(0);
    if nroutes >= 2 {
        let a = rng.usize(0, nroutes - 1);
        let b = (a + rng.usize(1, nroutes - 1)) % nroutes;
        let p = format!("{}.K", tag);
        let q = "S".to_string();
        let old_a = x["routes"][a]["id"].as_str().unwrap_or("").to_string();
        let old_b = x["routes"][b]["id"].as_str().unwrap_or("").to_string();
        let new_a = p.clone();
        let new_b = format!("{}{}{}", p, sep, q);
        // segment renames per route: old id -> new id
        let mut seg_map_a = std::collections::BTreeMap::new();
        let mut seg_map_b = std::collections::BTreeMap::new();
        if let Some(segs) = x["routes"][a]["segments"].as_array_mut() {
            for (k, sg) in segs.iter_mut().enumerate() {
                let old = sg["id"].as_str().unwrap_or("").to_string();
                let new = format!("{}{}{}", q, sep, k);
                seg_map_a.insert(old, new.clone());
                sg["id"] = json!(new);
            }
        }
        if let Some(segs) = x["routes"][b]["segments"].as_array_mut() {
            for (k, sg) in segs.iter_mut().enumerate() {
                let old = sg["id"].as_str().unwrap_or("").to_string();
                let new = format!("{}", k);
                seg_map_b.insert(old, new.clone());
                sg["id"] = json!(new);
            }
        }
        x["routes"][a]["id"] = json!(new_a);
        x["routes"][b]["id"] = json!(new_b);
        if let Some(deps) = x["departures"].as_array_mut() {
            for d in deps.iter_mut() {
                let r = d["route"].as_str().unwrap_or("").to_string();
                let (new_r, map) = if r == old_a {
                    (new_a.clone(), &seg_map_a)
                } else if r == old_b {
                    (new_b.clone(), &seg_map_b)
                } else {
                    continue;
                };
                d["route"] = json!(new_r);
                if let Some(segs) = d["segments"].as_array_mut() {
                    for sg in segs.iter_mut() {
                        let old = sg["routeSegment"].as_str().unwrap_or("").to_string();
                        if let Some(n) = map.get(&old) {
                            sg["routeSegment"] = json!(n);
                        }
                    }
                }
            }
        }
        changed = true;
    }
    // ---- departures and their segments (segment ids stay globally unique)
    let ndeps = x["departures"].as_array().map(|a| a.len()).unwrap_or(0);
    if ndeps >= 2 {
        let a = rng.usize(0, ndeps - 1);
        let b = (a + rng.usize(1, ndeps - 1)) % ndeps;
        let p = format!("{}.J", tag);
        let q = "V";
        x["departures"][a]["id"] = json!(p.clone());
        x["departures"][b]["id"] = json!(format!("{}{}{}", p, sep, q));
        let mut n = 0;
        if let Some(segs) = x["departures"][b]["segments"].as_array_mut() {
            for sg in segs.iter_mut() {
                sg["id"] = json!(format!("{}.x{}", tag, n));
                n += 1;
            }
        }
        if let Some(segs) = x["departures"][a]["segments"].as_array_mut() {
            for (k, sg) in segs.iter_mut().enumerate() {
                // collides with segment k of departure b under (departure id + sep + segment id)
                sg["id"] = json!(format!("{}{}{}.x{}", q, sep, tag, k));
            }
        }
        changed = true;
    }
    // ---- depot ids that start like the internal node names ("s_<depot>", "e_<depot>")
    if rng.chance(1, 2) {
        if let Some(ds) = x.get_mut("depots").and_then(|d| d.as_array_mut()) {
            for d in ds.iter_mut() {
                if rng.chance(1, 2) {
                    if let Some(id) = d["id"].as_str().map(|s| s.to_string()) {
                        d["id"] = json!(format!("{}{}", *rng.pick(&["s_", "e_", "s_s_", "e_s_", "depot_"]), id));
                        changed = true;
                    }
                }
            }
        }
    }
    // ---- non-ASCII ids (multi-byte UTF-8: a request body may be cut inside a character)
    if rng.chance(1, 2) {
        let nl = x["locations"].as_array().map(|a| a.len()).unwrap_or(0);
        if nl >= 1 {
            let k = rng.usize(0, nl - 1);
            if let Some(l) = x["locations"][k]["id"].as_str().map(|s| s.to_string()) {
                let fancy = format!("{}{}", l, *rng.pick(&[" Zürich HB", " Genève-Aéroport", "·東京", " Łódź", "-Ñuñoa", " 🚆"]));
                let text = serde_json::to_string(x).unwrap();
                let renamed = text.replace(&format!("\"{}\"", l), &serde_json::to_string(&fancy).unwrap());
                if let Ok(v) = serde_json::from_str::<Value>(&renamed) {
                    *x = v;
                    changed = true;
                }
            }
        }
        let nd = x["departures"].as_array().map(|a| a.len()).unwrap_or(0);
        if nd >= 1 {
            let k = rng.usize(0, nd - 1);
            if let Some(segs) = x["departures"][k]["segments"].as_array_mut() {
                for sg in segs.iter_mut() {
                    if let Some(id) = sg["id"].as_str().map(|s| s.to_string()) {
                        sg["id"] = json!(format!("{}→é", id));
                    }
                }
            }
        }
    }
    // ---- the same id in two namespaces: the first location is named like the first vehicle type
    if rng.chance(1, 2) {
        if let (Some(t0), Some(l0)) = (x["vehicleTypes"][0]["id"].as_str().map(|s| s.to_string()), x["locations"][0]["id"].as_str().map(|s| s.to_string())) {
            let text = serde_json::to_string(x).unwrap();
            // rename location l0 -> t0 everywhere a location is referenced (locations, origins,
            // destinations, depot/slot locations, matrix indices): all are plain string values
            // equal to l0, and no other namespace uses l0
            let renamed = text.replace(&format!("\"{}\"", l0), &format!("\"{}\"", t0));
            if let Ok(v) = serde_json::from_str::<Value>(&renamed) {
                *x = v;
                changed = true;
            }
        }
    }
    changed
}

/// other accepted spellings of the same timestamps: without zero padding (as in the repository's
/// own example inputs: "2024-3-5T4:00:00"), with a space instead of 'T', with a trailing 'Z',
/// without the seconds when they are zero
pub fn respell_timestamps(rng: &mut Rng, x: &mut Value) {
    let style = *rng.pick(&[0u64, 0, 0, 1, 2, 3, 3, 4]);
    fn respell(rng: &mut Rng, style: u64, s: &str) -> String {
        let t = match refmodel::time::parse(s) {
            Ok(t) => t,
            Err(_) => return s.to_string(),
        };
        let days = t.div_euclid(86400);
        let rem = t.rem_euclid(86400);
        let (y, m, d) = refmodel::time::civil_from_days(days);
        let (hh, mm, ss) = (rem / 3600, (rem % 3600) / 60, rem % 60);
        let st = if style == 4 { rng.below(4) } else { style };
        match st {
            0 => format!("{}-{}-{}T{}:{:02}:{:02}", y, m, d, hh, mm, ss),
            1 => format!("{:04}-{:02}-{:02} {:02}:{:02}:{:02}", y, m, d, hh, mm, ss),
            2 => format!("{:04}-{:02}-{:02}T{:02}:{:02}:{:02}Z", y, m, d, hh, mm, ss),
            _ => {
                if ss == 0 {
                    format!("{}-{:02}-{}T{}:{:02}", y, m, d, hh, mm)
                } else {
                    format!("{}-{:02}-{}T{}:{:02}:{:02}", y, m, d, hh, mm, ss)
                }
            }
        }
    }
    fn walk(rng: &mut Rng, style: u64, v: &mut Value) {
        match v {
            Value::Object(m) => {
                for (k, c) in m.iter_mut() {
                    if matches!(k.as_str(), "departure" | "start" | "end") {
                        if let Some(s) = c.as_str().map(|s| s.to_string()) {
                            *c = json!(respell(rng, style, &s));
                            continue;
                        }
                    }
                    walk(rng, style, c);
                }
            }
            Value::Array(a) => {
                for c in a.iter_mut() {
                    walk(rng, style, c);
                }
            }
            _ => {}
        }
    }
    walk(rng, style, x);
}

/// values at the far end of what the input format allows (all counts are 32-bit in the model):
/// depot capacities, formation limits and track counts around 2^31 and 2^32 - 1, a departure
/// with ~10^9 passengers on a segment with a formation limit, vehicle capacities beyond 2^31,
/// service trips of thousands of kilometres, cost coefficients up to 6*10^5 per second, a huge maintenance
/// allowance. Returns the names of the applied kinds.
pub fn apply_extremes(rng: &mut Rng, x: &mut Value) -> Vec<&'static str> {
    const HUGE: [u64; 5] = [2147483647, 2147483648, 3000000000, 4294967295, 4294967294];
    // formation limits and vehicle capacities stay where capacity x formation size fits 32 bits
    // and where the flow builder's explicit overflow guard does not refuse the instance
    const LARGE: [u64; 5] = [100, 255, 256, 1000, 999];
    let mut applied = Vec::new();
    // debugging aid: VERIF_EXTREME_KIND=<n> forces one kind
    let forced: Option<u64> = std::env::var("VERIF_EXTREME_KIND").ok().and_then(|v| v.parse().ok());
    let has_crowd = |x: &Value| x["departures"].as_array().map(|ds| ds.iter().any(|d| d["segments"].as_array().map(|sg| sg.iter().any(|g| g["passengers"].as_u64().unwrap_or(0) > 1 << 24)).unwrap_or(false))).unwrap_or(false);
    for _ in 0..rng.usize(1, 3) {
        let kind = forced.unwrap_or_else(|| rng.below(9));
        // a crowd stays on a segment whose formation limit is small (formations of hundreds of
        // coupled vehicles are outside the domain)
        if (kind == 1 || kind == 2) && has_crowd(x) {
            continue;
        }
        match kind {
            0 => {
                // depot capacities (total and per type)
                if let Some(ds) = x.get_mut("depots").and_then(|d| d.as_array_mut()) {
                    if !ds.is_empty() {
                        let all = rng.chance(1, 3);
                        let pick = rng.usize(0, ds.len() - 1);
                        for (i, d) in ds.iter_mut().enumerate() {
                            if !(all || i == pick) {
                                continue;
                            }
                            let total = *rng.pick(&HUGE);
                            d["capacity"] = json!(total);
                            if let Some(al) = d.get_mut("allowedTypes").and_then(|a| a.as_array_mut()) {
                                for a in al.iter_mut() {
                                    if a.get("capacity").map(|c| c.is_u64()).unwrap_or(false) && rng.chance(1, 2) {
                                        a["capacity"] = json!(*rng.pick(&HUGE));
                                    }
                                }
                            }
                        }
                        applied.push("huge_depot_capacity");
                    }
                }
            }
            1 => {
                if let Some(ts) = x.get_mut("vehicleTypes").and_then(|d| d.as_array_mut()) {
                    let i = rng.usize(0, ts.len() - 1);
                    ts[i]["maximalFormationCount"] = json!(*rng.pick(&LARGE));
                    applied.push("large_type_formation_limit");
                }
            }
            2 => {
                if let Some(rs) = x.get_mut("routes").and_then(|d| d.as_array_mut()) {
                    let i = rng.usize(0, rs.len() - 1);
                    if let Some(segs) = rs[i].get_mut("segments").and_then(|d| d.as_array_mut()) {
                        let k = rng.usize(0, segs.len() - 1);
                        segs[k]["maximalFormationCount"] = json!(*rng.pick(&LARGE));
                        applied.push("large_segment_formation_limit");
                    }
                }
            }
            3 => {
                if let Some(ms) = x.get_mut("maintenanceSlots").and_then(|d| d.as_array_mut()) {
                    if !ms.is_empty() {
                        let i = rng.usize(0, ms.len() - 1);
                        // every allotted track is filled by the start solution, and the flow
                        // builder treats an absent formation limit as 100: stay well below
                        ms[i]["trackCount"] = json!(*rng.pick(&[16u64, 17, 25]));
                        applied.push("large_track_count");
                    }
                }
            }
            4 => {
                // one departure segment with a formation limit gets a crowd nobody can carry
                let limited_types: Vec<String> = x["vehicleTypes"].as_array().map(|a| a.iter().filter(|t| t.get("maximalFormationCount").map(|l| l.as_u64().map(|v| v <= 8).unwrap_or(false)).unwrap_or(false)).filter_map(|t| t["id"].as_str().map(|s| s.to_string())).collect()).unwrap_or_default();
                let mut cands: Vec<(usize, usize)> = Vec::new();
                if let (Some(deps), Some(routes)) = (x["departures"].as_array(), x["routes"].as_array()) {
                    for (di, d) in deps.iter().enumerate() {
                        let route = routes.iter().find(|r| r["id"] == d["route"]);
                        if let (Some(route), Some(segs)) = (route, d["segments"].as_array()) {
                            for (si, sg) in segs.iter().enumerate() {
                                let type_limited = route["vehicleType"].as_str().map(|t| limited_types.iter().any(|l| l == t)).unwrap_or(false);
                                let seg_limited = route["segments"].as_array().and_then(|rs| rs.iter().find(|r| r["id"] == sg["routeSegment"])).map(|r| r.get("maximalFormationCount").and_then(|l| l.as_u64()).map(|v| v <= 8).unwrap_or(false)).unwrap_or(false);
                                if type_limited || seg_limited {
                                    cands.push((di, si));
                                }
                            }
                        }
                    }
                }
                let crowd_present = x["departures"].as_array().map(|ds| ds.iter().any(|d| d["segments"].as_array().map(|sg| sg.iter().any(|g| g["passengers"].as_u64().unwrap_or(0) > 1 << 24)).unwrap_or(false))).unwrap_or(false);
                if !cands.is_empty() && !crowd_present {
                    let &(di, si) = rng.pick(&cands);
                    let crowd = *rng.pick(&[16777217u64, 20000003, 999999937, 2147483000, 2000000011]);
                    x["departures"][di]["segments"][si]["passengers"] = json!(crowd);
                    x["departures"][di]["segments"][si]["seated"] = json!(rng.range(0, 40));
                    applied.push("crowd_beyond_2^24_on_limited_segment");
                }
            }
            5 => {
                if let Some(ts) = x.get_mut("vehicleTypes").and_then(|d| d.as_array_mut()) {
                    let i = rng.usize(0, ts.len() - 1);
                    let c = *rng.pick(&[65535u64, 65536, 1000000]);
                    ts[i]["capacity"] = json!(c);
                    ts[i]["seats"] = json!(if rng.chance(1, 2) { c } else { c / 2 });
                    applied.push("large_vehicle_capacity");
                }
            }
            6 => {
                // service trips of thousands of kilometres: whole tours beyond 10000 km
                if let Some(rs) = x.get_mut("routes").and_then(|d| d.as_array_mut()) {
                    for r in rs.iter_mut() {
                        if let Some(segs) = r.get_mut("segments").and_then(|d| d.as_array_mut()) {
                            for sg in segs.iter_mut() {
                                if rng.chance(2, 3) {
                                    sg["distance"] = json!(rng.range(1500, 9000) * 1000);
                                }
                            }
                        }
                    }
                    applied.push("service_trips_of_thousands_of_km");
                }
            }
            7 => {
                if let Some(c) = x["parameters"].get_mut("costs").and_then(|c| c.as_object_mut()) {
                    for (_, v) in c.iter_mut() {
                        if let Some(n) = v.as_u64() {
                            // never beyond 6*10^5 per second, also when applied repeatedly or
                            // on top of the x100 instances (the flow builder's own overflow
                            // guard refuses instances far beyond that)
                            *v = json!(n.saturating_mul(10000).min(600_000));
                        }
                    }
                    applied.push("cost_coefficients_x10000");
                }
            }
            _ => {
                if x["parameters"].get("maintenance").map(|m| m.is_object()).unwrap_or(false) {
                    x["parameters"]["maintenance"]["maximalDistance"] = json!(*rng.pick(&[4294967296u64, 1u64 << 40, 9999999999]));
                    applied.push("huge_maintenance_allowance");
                }
            }
        }
    }
    applied
}

/// features of an instance that evidence files report
pub fn features(inst: &refmodel::Inst) -> Vec<&'static str> {
    let mut f = Vec::new();
    if !inst.depots_given {
        f.push("depots_absent");
    } else if inst.depots.len() == 1 {
        f.push("depots_empty_list");
    }
    if inst.slots_given && !inst.slots.is_empty() {
        f.push("slots");
    }
    if inst.forbid {
        f.push("forbid");
    }
    if inst.shunt_min == 0 {
        f.push("zero_min_shunting");
    }
    if inst.shunt_dh == 0 {
        f.push("zero_dh_shunting");
    }
    if inst.max_dist == 0 {
        f.push("max_distance_zero_or_absent");
    }
    if inst.types.len() > 1 {
        f.push("multi_type");
    }
    let mut tie = false;
    for a in 0..inst.trips.len() {
        for b in 0..inst.trips.len() {
            if a != b && inst.slack(refmodel::N::T(a), refmodel::N::T(b)) == Some(0) {
                tie = true;
            }
        }
    }
    if tie {
        f.push("zero_slack_pair");
    }
    if (0..inst.trips.len()).any(|i| inst.need(i) >= 2) {
        f.push("need_ge2");
    }
    if (0..inst.trips.len()).any(|i| inst.limit(i).map(|l| inst.need(i) > l).unwrap_or(false)) {
        f.push("need_gt_limit");
    }
    if (0..inst.trips.len()).any(|i| inst.trips[i].seg_limit.is_some() && inst.types[inst.trips[i].vtype].limit.is_none()) {
        f.push("segment_only_limit");
    }
    if inst.costs.staff + inst.costs.service + inst.costs.maintenance + inst.costs.dead_head + inst.costs.idle == 0 {
        f.push("all_costs_zero");
    }
    f
}
