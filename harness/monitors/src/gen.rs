//! Deterministic generator of valid instances in the documented input format.
//! Hostile on purpose inside the valid domain: time ties, zero shunting, scarce depots,
//! segment-only limits, singleton rotation cycles, degenerate shapes.

use crate::rng::Rng;
use serde_json::{json, Map, Value};

#[derive(Clone, Copy, Debug, PartialEq, Eq)]
pub enum Profile {
    Mixed,
    Ties,
    Limits,
    Depots,
    Maint,
    Forbid,
    NonMetric,
    Degenerate,
}

pub const PROFILES: [Profile; 8] = [
    Profile::Mixed,
    Profile::Ties,
    Profile::Limits,
    Profile::Depots,
    Profile::Maint,
    Profile::Forbid,
    Profile::NonMetric,
    Profile::Degenerate,
];

impl Profile {
    pub fn name(&self) -> &'static str {
        match self {
            Profile::Mixed => "mixed",
            Profile::Ties => "ties",
            Profile::Limits => "limits",
            Profile::Depots => "depots",
            Profile::Maint => "maint",
            Profile::Forbid => "forbid",
            Profile::NonMetric => "nonmetric",
            Profile::Degenerate => "degenerate",
        }
    }
    pub fn from_name(s: &str) -> Option<Profile> {
        PROFILES.iter().copied().find(|p| p.name() == s)
    }
}

#[derive(Clone, Debug)]
pub struct GenOpts {
    pub profile: Profile,
    /// upper bound on the number of departures
    pub max_departures: usize,
    /// force maintenance slots to be present (local search only runs then)
    pub force_slots: bool,
    /// force a single vehicle type or decoupled depot totals (C14 domain)
    pub decoupled_depots: bool,
    /// aim at several rotation cycles per type: few types, several slots with several tracks,
    /// a generous allowance (vehicles that visit a slot get a negative counter and start a cycle)
    pub rotation_rich: bool,
}

impl GenOpts {
    pub fn new(profile: Profile, max_departures: usize) -> GenOpts {
        GenOpts {
            profile,
            max_departures,
            force_slots: false,
            decoupled_depots: false,
            rotation_rich: false,
        }
    }
}

const DAY0: i64 = 19786 * 86400; // 2024-03-04T00:00:00

fn iso(t: i64) -> String {
    refmodel::time::format(t)
}

/// generate one instance; `tag` is woven into every id
pub fn generate(rng: &mut Rng, opts: &GenOpts, tag: &str) -> Value {
    let p = opts.profile;
    let ties = p == Profile::Ties || (p != Profile::Mixed && rng.chance(1, 6));
    let grid: i64 = if ties { *rng.pick(&[600, 900, 1800]) } else { 60 };

    // ---------------------------------------------------------------- locations
    let big = opts.max_departures > 20;
    let nloc = match p {
        Profile::Degenerate => rng.usize(1, 2),
        Profile::Ties => rng.usize(1, 3),
        _ if big => rng.usize(3, 9),
        _ => rng.usize(1, 5),
    };
    let locs: Vec<String> = (0..nloc).map(|i| format!("{}.L{}", tag, i)).collect();

    // ---------------------------------------------------------------- vehicle types
    let ntypes = match p {
        Profile::Degenerate => rng.usize(1, 2),
        _ if opts.rotation_rich => rng.usize(1, 2),
        _ if big => rng.usize(1, 4),
        _ => rng.usize(1, 3),
    };
    let mut types = Vec::new();
    let mut type_caps = Vec::new();
    for i in 0..ntypes {
        let capacity = rng.range(4, 30) as u64 * 10;
        let seats = if rng.chance(1, 8) {
            capacity
        } else {
            (capacity * rng.range(3, 9) as u64 / 10).max(1)
        };
        let limit: Option<u64> = match p {
            Profile::Limits => {
                if rng.chance(1, 2) {
                    Some(rng.range(1, 3) as u64)
                } else {
                    None
                }
            }
            _ => {
                if rng.chance(1, 3) {
                    Some(rng.range(1, 4) as u64)
                } else {
                    None
                }
            }
        };
        let mut t = Map::new();
        t.insert("id".into(), json!(format!("{}.T{}", tag, i)));
        t.insert("capacity".into(), json!(capacity));
        t.insert("seats".into(), json!(seats));
        match limit {
            Some(l) => {
                t.insert("maximalFormationCount".into(), json!(l));
            }
            None => {
                if rng.chance(1, 4) {
                    t.insert("maximalFormationCount".into(), Value::Null);
                }
            }
        }
        types.push(Value::Object(t));
        type_caps.push((capacity, seats, limit));
    }

    // ---------------------------------------------------------------- parameters
    let shunt_min: i64 = match p {
        Profile::Ties => *rng.pick(&[0, 0, 0, grid]),
        _ => {
            if ties {
                *rng.pick(&[0, grid])
            } else {
                *rng.pick(&[0, 60, 120, 300])
            }
        }
    };
    let shunt_dh: i64 = match p {
        Profile::Ties => *rng.pick(&[0, 0, grid]),
        _ => {
            if ties {
                *rng.pick(&[0, grid])
            } else {
                *rng.pick(&[0, 60, 300, 600])
            }
        }
    };
    let forbid: Option<bool> = match p {
        Profile::Forbid => Some(true),
        _ => match rng.below(8) {
            0 => Some(true),
            1 | 2 => Some(false),
            _ => None,
        },
    };

    // ---------------------------------------------------------------- dead-head matrices
    let mut durations = vec![vec![0i64; nloc]; nloc];
    let mut distances = vec![vec![0i64; nloc]; nloc];
    for i in 0..nloc {
        for k in 0..nloc {
            if i == k {
                continue;
            }
            if k < i && p != Profile::NonMetric && rng.chance(3, 4) {
                durations[i][k] = durations[k][i];
                distances[i][k] = distances[k][i];
                continue;
            }
            let d = if ties {
                grid * rng.range(if p == Profile::NonMetric || p == Profile::Ties { 0 } else { 1 }, 4)
            } else if p == Profile::NonMetric && rng.chance(1, 5) {
                0
            } else {
                rng.range(5, 90) * 60
            };
            durations[i][k] = d;
            distances[i][k] = if (p == Profile::NonMetric || p == Profile::Degenerate) && rng.chance(1, 5) {
                0
            } else {
                rng.range(1, 80) * 1000
            };
        }
    }
    // occasionally one connection that is longer than the planning horizon / than 1000 km (the
    // loader reduces such values and says so)
    if nloc >= 2 && matches!(p, Profile::NonMetric | Profile::Mixed | Profile::Depots) && rng.chance(1, 6) {
        let i = rng.usize(0, nloc - 1);
        let k = (i + rng.usize(1, nloc - 1)) % nloc;
        if rng.chance(2, 3) {
            durations[i][k] = rng.range(26, 40) * 3600;
        }
        if rng.chance(1, 2) {
            distances[i][k] = rng.range(1100, 3000) * 1000;
        }
    }
    // "indices" in a shuffled order, to exercise the index mapping
    let mut order: Vec<usize> = (0..nloc).collect();
    if rng.chance(1, 2) {
        rng.shuffle(&mut order);
    }
    let dh = json!({
        "indices": order.iter().map(|&i| locs[i].clone()).collect::<Vec<_>>(),
        "durations": order.iter().map(|&i| order.iter().map(|&k| durations[i][k]).collect::<Vec<_>>()).collect::<Vec<_>>(),
        "distances": order.iter().map(|&i| order.iter().map(|&k| distances[i][k]).collect::<Vec<_>>()).collect::<Vec<_>>(),
    });

    // ---------------------------------------------------------------- routes
    let nroutes = match p {
        Profile::Degenerate => rng.usize(1, 2),
        _ => rng.usize(1, 4),
    };
    struct RSeg {
        id: String,
        dur: i64,
        limit: Option<u64>,
        origin: usize,
        dest: usize,
    }
    struct Route {
        id: String,
        vt: usize,
        segs: Vec<RSeg>,
        first_origin: usize,
        last_dest: usize,
    }
    let mut routes_json = Vec::new();
    let mut routes: Vec<Route> = Vec::new();
    let unused_type = p == Profile::Degenerate && ntypes > 1 && rng.chance(1, 2);
    // route segment ids only have to be unique within their route
    let shared_segment_ids = rng.chance(1, 5);
    for r in 0..nroutes {
        let vt = if unused_type { 0 } else { rng.usize(0, ntypes - 1) };
        let nseg = if p == Profile::Degenerate { rng.usize(1, 2) } else { rng.usize(1, 3) };
        let mut cur = rng.usize(0, nloc - 1);
        let first_origin = cur;
        let mut segs = Vec::new();
        let mut segs_json = Vec::new();
        for s in 0..nseg {
            let dest = if p == Profile::Degenerate && rng.chance(1, 3) {
                cur
            } else {
                rng.usize(0, nloc - 1)
            };
            let dur = if ties {
                grid * rng.range(1, 6)
            } else {
                rng.range(10, 120) * 60
            };
            let dist = if p == Profile::Degenerate && rng.chance(1, 3) {
                0
            } else {
                rng.range(1, 120) * 1000
            };
            let limit: Option<u64> = match p {
                Profile::Limits => {
                    if rng.chance(1, 2) {
                        Some(rng.range(1, 3) as u64)
                    } else {
                        None
                    }
                }
                _ => {
                    if rng.chance(1, 4) {
                        Some(rng.range(1, 3) as u64)
                    } else {
                        None
                    }
                }
            };
            let id = if shared_segment_ids { format!("{}.seg{}", tag, s) } else { format!("{}.R{}.s{}", tag, r, s) };
            let mut sj = Map::new();
            sj.insert("id".into(), json!(id));
            sj.insert("order".into(), json!(s));
            sj.insert("origin".into(), json!(locs[cur]));
            sj.insert("destination".into(), json!(locs[dest]));
            sj.insert("distance".into(), json!(dist));
            sj.insert("duration".into(), json!(dur));
            if let Some(l) = limit {
                sj.insert("maximalFormationCount".into(), json!(l));
            } else if rng.chance(1, 5) {
                sj.insert("maximalFormationCount".into(), Value::Null);
            }
            segs_json.push(Value::Object(sj));
            segs.push(RSeg { id, dur, limit, origin: cur, dest });
            cur = dest;
        }
        let id = format!("{}.R{}", tag, r);
        routes_json.push(json!({
            "id": id,
            "vehicleType": format!("{}.T{}", tag, vt),
            "segments": segs_json,
        }));
        routes.push(Route { id, vt, segs, first_origin, last_dest: cur });
    }

    let ndep = rng.usize(1, opts.max_departures.max(1));
    let window_start = DAY0 + rng.range(0, 8) * 3600;
    let window_len: i64 = if ndep > 12 { 18 * 3600 } else { rng.range(2, 14) * 3600 };
    // ---------------------------------------------------------------- maintenance
    let with_slots = opts.force_slots
        || opts.rotation_rich
        || match p {
            Profile::Maint => true,
            Profile::Degenerate => rng.chance(1, 3),
            _ => rng.chance(1, 2),
        };
    let mut slots = Vec::new();
    let mut total_tracks = 0u64;
    // activities placed so far (start, end, start location, end location): later departures are
    // placed exactly at or around the connectivity thresholds of earlier ones
    let mut placed: Vec<(i64, i64, usize, usize)> = Vec::new();
    let tight = rng.chance(1, 2);
    if with_slots {
        let nslots = match p {
            _ if opts.rotation_rich => rng.usize(2, 4),
            Profile::Maint => rng.usize(1, 4),
            _ => rng.usize(1, 2),
        };
        let chained = p == Profile::Maint && rng.chance(1, 3);
        let mut chain_end: Option<(i64, usize)> = None;
        for m in 0..nslots {
            let mut start = window_start - 4 * 3600 + rng.range(0, (window_len + 6 * 3600) / grid) * grid;
            let mut len = if ties { grid * rng.range(1, 8) } else { rng.range(30, 240) * 60 };
            let mut l = rng.usize(0, nloc - 1);
            if chained {
                // short slots one after the other at one location: a vehicle can visit several
                len = if ties { grid } else { rng.range(20, 60) * 60 };
                if let Some((e, cl)) = chain_end {
                    l = cl;
                    start = e + shunt_min + if ties { 0 } else { rng.range(0, 3) * 600 };
                }
                chain_end = Some((start + len, l));
            }
            let tracks = if opts.rotation_rich { rng.range(2, 3) as u64 } else { rng.range(1, 3) as u64 };
            total_tracks += tracks;
            placed.push((start, start + len, l, l));
            slots.push(json!({
                "id": format!("{}.M{}", tag, m),
                "location": locs[l],
                "start": iso(start),
                "end": iso(start + len),
                "trackCount": tracks,
            }));
        }
    }
    // ---------------------------------------------------------------- departures
    let heavy = rng.chance(1, 4);
    let mut departures = Vec::new();
    let mut total_need: u64 = 0;
    let mut n_segments = 0usize;
    for d in 0..ndep {
        let route = &routes[rng.usize(0, routes.len() - 1)];
        let mut t = window_start + rng.range(0, window_len / grid) * grid;
        if tight && !placed.is_empty() && rng.chance(1, 2) {
            let total: i64 = route.segs.iter().map(|x| x.dur).sum::<i64>() + (route.segs.len() as i64 - 1) * shunt_min;
            let &(a_start, a_end, a_from, a_to) = rng.pick(&placed);
            let offsets_same: Vec<i64> = if ties { vec![0, shunt_min] } else { vec![0, shunt_min, (shunt_min - 60).max(0), shunt_min + 60] };
            let offsets_diff: Vec<i64> = if ties {
                vec![0, shunt_dh, 2 * shunt_dh, shunt_min + shunt_dh]
            } else {
                vec![0, shunt_dh, 2 * shunt_dh, shunt_min + shunt_dh, (2 * shunt_dh - 60).max(0), 2 * shunt_dh + 60, shunt_min]
            };
            if rng.chance(1, 2) {
                // start right after the earlier activity
                let o = route.first_origin;
                let off = if a_to == o { *rng.pick(&offsets_same) } else { durations[a_to][o] + *rng.pick(&offsets_diff) };
                t = a_end + off;
            } else if route.segs.len() == 1 {
                // end right before the earlier activity
                let d = route.last_dest;
                let off = if d == a_from { *rng.pick(&offsets_same) } else { durations[d][a_from] + *rng.pick(&offsets_diff) };
                let cand = a_start - off - total;
                if cand > window_start - 6 * 3600 {
                    t = cand;
                }
            }
        }
        let (capacity, seats, tlimit) = type_caps[route.vt];
        let mut segs = Vec::new();
        for (s, rs) in route.segs.iter().enumerate() {
            if s > 0 {
                // a vehicle must be able to serve the segments in order
                let dwell = if ties {
                    shunt_min + if rng.chance(1, 2) { 0 } else { grid * rng.range(0, 2) }
                } else {
                    shunt_min + rng.range(0, 10) * 60
                };
                // keep on the grid
                let dwell = (dwell + grid - 1) / grid * grid;
                t += dwell.max(shunt_min);
            }
            let want = match rng.below(10) {
                0 => 0,
                1..=5 => 1,
                6..=7 => 2,
                8 => 3,
                _ => {
                    if heavy {
                        rng.range(4, 8) as u64
                    } else {
                        2
                    }
                }
            };
            let passengers = if want == 0 {
                0
            } else if rng.chance(1, 4) {
                want * capacity // exactly full
            } else {
                (want - 1) * capacity + rng.range(1, capacity as i64) as u64
            };
            let seated = match rng.below(6) {
                0 => 0,
                1 => passengers, // everybody wants to sit: seats decide
                _ => {
                    let s_cap = (want.max(1)) * seats;
                    rng.range(0, s_cap.min(passengers) as i64) as u64
                }
            };
            let need = {
                let p1 = passengers.max(1);
                ((p1 + capacity - 1) / capacity).max((seated + seats - 1) / seats)
            };
            let lim = match (tlimit, rs.limit) {
                (Some(a), Some(b)) => Some(a.min(b)),
                (Some(a), None) => Some(a),
                (None, b) => b,
            };
            total_need += lim.map(|l| need.min(l)).unwrap_or(need);
            segs.push(json!({
                "id": format!("{}.D{}.s{}", tag, d, s),
                "routeSegment": rs.id,
                "departure": iso(t),
                "passengers": passengers,
                "seated": seated,
            }));
            placed.push((t, t + rs.dur, rs.origin, rs.dest));
            t += rs.dur;
            n_segments += 1;
        }
        departures.push(json!({
            "id": format!("{}.D{}", tag, d),
            "route": route.id,
            "segments": segs,
        }));
    }

    let maintenance_param: Option<u64> = match if opts.rotation_rich { 3 + rng.below(2) } else { rng.below(if p == Profile::Maint { 5 } else { 6 }) } {
        0 => None,
        1 => Some(0),
        2 => Some(rng.range(1, 60) as u64 * 1000), // tight
        3 => Some(rng.range(50, 400) as u64 * 1000),
        _ => Some(rng.range(400, 30000) as u64 * 1000), // generous
    };

    // ---------------------------------------------------------------- depots
    let depots: Option<Vec<Value>> = {
        let mode = match p {
            Profile::Depots => rng.below(8) + 1, // never absent
            _ => rng.below(9),
        };
        match mode {
            0 | 3 | 5 => None,
            1 if p == Profile::Depots && rng.chance(1, 3) => Some(Vec::new()),
            _ => {
                let nd = if p == Profile::Depots { rng.usize(1, 6) } else { rng.usize(1, 4) };
                // several depots may share a location
                let shared_loc = if rng.chance(1, 3) { Some(rng.usize(0, nloc - 1)) } else { None };
                let mut v = Vec::new();
                let generous = (total_need + total_tracks + 2) * 2;
                for d in 0..nd {
                    let capacity: u64 = if opts.decoupled_depots {
                        0 // fixed below
                    } else {
                        match rng.below(6) {
                            0 => 0,
                            1 => 1,
                            2 => rng.range(1, (total_need.max(1)) as i64) as u64, // scarce
                            _ => generous,
                        }
                    };
                    let mut allowed = Vec::new();
                    let mut sum_type_caps = 0u64;
                    for t in 0..ntypes {
                        if ntypes > 1 && rng.chance(1, 4) {
                            continue; // type not listed
                        }
                        let mut a = Map::new();
                        a.insert("vehicleType".into(), json!(format!("{}.T{}", tag, t)));
                        let explicit = opts.decoupled_depots || rng.chance(1, 2);
                        if explicit {
                            let c = match rng.below(4) {
                                0 => 0,
                                1 => 1,
                                2 => rng.range(1, (total_need.max(1)) as i64) as u64,
                                _ => generous,
                            };
                            sum_type_caps += c;
                            a.insert("capacity".into(), json!(c));
                        } else if rng.chance(1, 3) {
                            a.insert("capacity".into(), Value::Null);
                        }
                        allowed.push(Value::Object(a));
                    }
                    let capacity = if opts.decoupled_depots { sum_type_caps } else { capacity };
                    v.push(json!({
                        "id": format!("{}.P{}", tag, d),
                        "location": locs[match shared_loc { Some(l) if rng.chance(2, 3) => l, _ => rng.usize(0, nloc - 1) }],
                        "capacity": capacity,
                        "allowedTypes": allowed,
                    }));
                }
                Some(v)
            }
        }
    };

    // ---------------------------------------------------------------- costs
    let zero_costs = p == Profile::Degenerate && rng.chance(1, 4);
    // one instance in eight has cost coefficients two orders of magnitude larger (tour costs
    // beyond 2^31, schedule costs beyond 2^32)
    let large_costs = !zero_costs && rng.chance(1, 8);
    let mut costs = Map::new();
    if zero_costs {
        costs.insert("staff".into(), json!(0));
        costs.insert("serviceTrip".into(), json!(0));
        costs.insert("deadHeadTrip".into(), json!(0));
        costs.insert("idle".into(), json!(0));
    } else {
        let k = if large_costs { 100 } else { 1 };
        costs.insert("staff".into(), json!(rng.range(0, 200) * k));
        costs.insert("serviceTrip".into(), json!(rng.range(0, 100) * k));
        if rng.chance(2, 3) {
            costs.insert("maintenance".into(), json!(rng.range(0, 50) * k));
        }
        costs.insert("deadHeadTrip".into(), json!(rng.range(0, 600) * k));
        costs.insert("idle".into(), json!(rng.range(0, 50) * k));
    }

    let mut params = Map::new();
    if let Some(fb) = forbid {
        params.insert("forbidDeadHeadTrips".into(), json!(fb));
    }
    params.insert(
        "shunting".into(),
        json!({"minimalDuration": shunt_min, "deadHeadTripDuration": shunt_dh}),
    );
    if let Some(m) = maintenance_param {
        params.insert("maintenance".into(), json!({ "maximalDistance": m }));
    }
    params.insert("costs".into(), Value::Object(costs));

    let mut root = Map::new();
    root.insert("vehicleTypes".into(), Value::Array(types));
    root.insert(
        "locations".into(),
        Value::Array(locs.iter().map(|l| json!({ "id": l })).collect()),
    );
    if let Some(d) = depots {
        root.insert("depots".into(), Value::Array(d));
    }
    root.insert("routes".into(), Value::Array(routes_json));
    root.insert("departures".into(), Value::Array(departures));
    if with_slots {
        root.insert("maintenanceSlots".into(), Value::Array(slots));
    }
    root.insert("deadHeadTrips".into(), dh);
    root.insert("parameters".into(), Value::Object(params));
    let _ = n_segments;
    Value::Object(root)
}

/// three locations where the direct connection X -> Z is much slower than the detour over Y,
/// trips at X and Z and a maintenance slot at Y in between: a vehicle can drive a -> slot -> c,
/// but a cannot reach c directly
pub fn gap_network(rng: &mut Rng, tag: &str) -> Value {
    let base = DAY0 + 8 * 3600;
    let shunt_min = *rng.pick(&[0i64, 60, 300]);
    let shunt_dh = *rng.pick(&[0i64, 60, 300]);
    let hop = rng.range(5, 30) * 60;
    let slow = rng.range(8, 30) * 3600;
    let a_start = base + rng.range(0, 4) * 900;
    let a_end = a_start + rng.range(1, 4) * 900;
    let m_start = a_end + hop + 2 * shunt_dh + rng.range(0, 2) * 600;
    let m_end = m_start + rng.range(1, 4) * 900;
    let c_start = m_end + hop + 2 * shunt_dh + rng.range(0, 2) * 600;
    let extra_start = c_start + 3600 + slow; // a trip that a CAN reach directly
    let t = |x: i64| refmodel::time::format(x);
    json!({
        "vehicleTypes": [{"id": format!("{}.V", tag), "capacity": 100, "seats": 60}],
        "locations": [{"id": format!("{}.X", tag)}, {"id": format!("{}.Y", tag)}, {"id": format!("{}.Z", tag)}],
        "routes": [
            {"id": format!("{}.rx", tag), "vehicleType": format!("{}.V", tag), "segments": [{"id": format!("{}.rxs", tag), "order": 0, "origin": format!("{}.X", tag), "destination": format!("{}.X", tag), "distance": 20000, "duration": a_end - a_start}]},
            {"id": format!("{}.rz", tag), "vehicleType": format!("{}.V", tag), "segments": [{"id": format!("{}.rzs", tag), "order": 0, "origin": format!("{}.Z", tag), "destination": format!("{}.Z", tag), "distance": 30000, "duration": 1800}]},
            {"id": format!("{}.rl", tag), "vehicleType": format!("{}.V", tag), "segments": [{"id": format!("{}.rls", tag), "order": 0, "origin": format!("{}.X", tag), "destination": format!("{}.X", tag), "distance": 50000, "duration": c_start + 1800 - a_start}]}
        ],
        "departures": [
            {"id": format!("{}.da", tag), "route": format!("{}.rx", tag), "segments": [{"id": format!("{}.a", tag), "routeSegment": format!("{}.rxs", tag), "departure": t(a_start), "passengers": 50, "seated": 20}]},
            {"id": format!("{}.dc", tag), "route": format!("{}.rz", tag), "segments": [{"id": format!("{}.c", tag), "routeSegment": format!("{}.rzs", tag), "departure": t(c_start), "passengers": 50, "seated": 20}]},
            {"id": format!("{}.dl", tag), "route": format!("{}.rl", tag), "segments": [{"id": format!("{}.l", tag), "routeSegment": format!("{}.rls", tag), "departure": t(a_start), "passengers": 50, "seated": 20}]},
            {"id": format!("{}.de", tag), "route": format!("{}.rz", tag), "segments": [{"id": format!("{}.e", tag), "routeSegment": format!("{}.rzs", tag), "departure": t(extra_start), "passengers": 50, "seated": 20}]}
        ],
        "maintenanceSlots": [{"id": format!("{}.m", tag), "location": format!("{}.Y", tag), "start": t(m_start), "end": t(m_end), "trackCount": 2}],
        "deadHeadTrips": {
            "indices": [format!("{}.X", tag), format!("{}.Y", tag), format!("{}.Z", tag)],
            "durations": [[0, hop, slow], [hop, 0, hop], [slow, hop, 0]],
            "distances": [[0, 9000, 400000], [9000, 0, 9000], [400000, 9000, 0]]
        },
        "parameters": {
            "shunting": {"minimalDuration": shunt_min, "deadHeadTripDuration": shunt_dh},
            "maintenance": {"maximalDistance": 500000},
            "costs": {"staff": 10, "serviceTrip": 20, "maintenance": 5, "deadHeadTrip": 100, "idle": 3}
        }
    })
}


/// "shifted chain": K morning trips that all overlap and K evening trips that all overlap on a
/// line of locations; morning trip i ends where evening trip i-1 starts, but evening trip i starts
/// one (slow) hop further. K vehicles suffice (each drives the slow hop), K+1 vehicles avoid
/// every dead-head trip: the fleet must stay minimal although one more vehicle would save K
/// dead-head trips at once.
pub fn chain_network(rng: &mut Rng, tag: &str) -> Value {
    let k = rng.usize(3, 14);
    let nloc = k + 3;
    let hop = rng.range(3, 9) * 3600;
    let far = 2 * hop;
    let m_start = DAY0 + rng.range(1, 3) * 3600;
    let m_dur = rng.range(1, 2) * 1800;
    let shunt_min = *rng.pick(&[0i64, 120]);
    let shunt_dh = *rng.pick(&[0i64, 300]);
    // evening trips are reachable over one hop but not over the far connection: a fleet of K has
    // to drive K slow hops, a fleet of K+1 none
    let e_start = m_start + m_dur + hop + 2 * shunt_dh + rng.range(0, 2) * 1800;
    let loc = |j: usize| format!("{}.L{}", tag, j);
    let locations: Vec<Value> = (0..nloc).map(|j| json!({ "id": loc(j) })).collect();
    let routes: Vec<Value> = (0..nloc - 1)
        .map(|j| {
            json!({"id": format!("{}.r{}", tag, j), "vehicleType": format!("{}.V", tag), "segments": [{
                "id": format!("{}.r{}.s", tag, j), "order": 0, "origin": loc(j), "destination": loc(j + 1),
                "distance": rng.range(10, 80) * 1000, "duration": m_dur}]})
        })
        .collect();
    let mut departures = Vec::new();
    for i in 1..=k {
        departures.push(json!({"id": format!("{}.M{}", tag, i), "route": format!("{}.r{}", tag, i - 1), "segments": [{
            "id": format!("{}.M{}.s", tag, i), "routeSegment": format!("{}.r{}.s", tag, i - 1),
            "departure": iso(m_start), "passengers": rng.range(1, 90), "seated": rng.range(0, 40)}]}));
        departures.push(json!({"id": format!("{}.E{}", tag, i), "route": format!("{}.r{}", tag, i + 1), "segments": [{
            "id": format!("{}.E{}.s", tag, i), "routeSegment": format!("{}.r{}.s", tag, i + 1),
            "departure": iso(e_start), "passengers": rng.range(1, 90), "seated": rng.range(0, 40)}]}));
    }
    let mut durations = Vec::new();
    let mut distances = Vec::new();
    for a in 0..nloc {
        let mut dr = Vec::new();
        let mut di = Vec::new();
        for b in 0..nloc {
            let hops = if a > b { a - b } else { b - a };
            let d = match hops {
                0 => 0,
                1 => hop,
                _ => far,
            };
            dr.push(d);
            di.push(d / 3600 * 40000);
        }
        durations.push(dr);
        distances.push(di);
    }
    let mut root = json!({
        "vehicleTypes": [{"id": format!("{}.V", tag), "capacity": 100, "seats": 50}],
        "locations": locations,
        "routes": routes,
        "departures": departures,
        "deadHeadTrips": {"indices": (0..nloc).map(loc).collect::<Vec<_>>(), "durations": durations, "distances": distances},
        "parameters": {
            "shunting": {"minimalDuration": shunt_min, "deadHeadTripDuration": shunt_dh},
            "costs": {"staff": rng.range(0, 100), "serviceTrip": rng.range(1, 60), "deadHeadTrip": rng.range(100, 600), "idle": rng.range(0, 30)}
        }
    });
    if rng.chance(1, 2) {
        root["depots"] = json!((0..nloc).map(|j| json!({"id": format!("{}.P{}", tag, j), "location": loc(j), "capacity": 50,
            "allowedTypes": [{"vehicleType": format!("{}.V", tag), "capacity": 50}]})).collect::<Vec<_>>());
    }
    root
}

/// features of an instance that evidence files report
pub fn features(inst: &refmodel::Inst) -> Vec<&'static str> {
    let mut f = Vec::new();
    if !inst.depots_given {
        f.push("depots_absent");
    } else if inst.depots.len() == 1 {
        f.push("depots_empty_list");
    }
    if inst.slots_given && !inst.slots.is_empty() {
        f.push("slots");
    }
    if inst.forbid {
        f.push("forbid");
    }
    if inst.shunt_min == 0 {
        f.push("zero_min_shunting");
    }
    if inst.shunt_dh == 0 {
        f.push("zero_dh_shunting");
    }
    if inst.max_dist == 0 {
        f.push("max_distance_zero_or_absent");
    }
    if inst.types.len() > 1 {
        f.push("multi_type");
    }
    let mut tie = false;
    for a in 0..inst.trips.len() {
        for b in 0..inst.trips.len() {
            if a != b && inst.slack(refmodel::N::T(a), refmodel::N::T(b)) == Some(0) {
                tie = true;
            }
        }
    }
    if tie {
        f.push("zero_slack_pair");
    }
    if (0..inst.trips.len()).any(|i| inst.need(i) >= 2) {
        f.push("need_ge2");
    }
    if (0..inst.trips.len()).any(|i| inst.limit(i).map(|l| inst.need(i) > l).unwrap_or(false)) {
        f.push("need_gt_limit");
    }
    if (0..inst.trips.len()).any(|i| inst.trips[i].seg_limit.is_some() && inst.types[inst.trips[i].vtype].limit.is_none()) {
        f.push("segment_only_limit");
    }
    if inst.costs.staff + inst.costs.service + inst.costs.maintenance + inst.costs.dead_head + inst.costs.idle == 0 {
        f.push("all_costs_zero");
    }
    f
}
