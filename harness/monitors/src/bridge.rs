//! Bridge between the repository's types and the reference model, and the observation
//! snapshot (`Obs`) taken through public getters only.

use model::base_types::{DepotIdx, Distance, NodeIdx, VehicleIdx, VehicleTypeIdx};
use model::json_serialisation::load_rolling_stock_problem_instance_from_json;
use model::network::nodes::Node;
use model::network::Network;
use refmodel::inst::DepotKind;
use refmodel::{Finding, Inst, N};
use serde_json::{json, Value};
use solution::tour::Tour;
use solution::Schedule;
use std::collections::{BTreeMap, BTreeSet, HashMap};
use std::sync::Arc;

pub struct Bridge {
    pub inst: Inst,
    pub net: Arc<Network>,
    pub node_of: HashMap<NodeIdx, N>,
    pub idx_of: HashMap<N, NodeIdx>,
    pub depot_of: HashMap<DepotIdx, usize>,
    pub depot_idx: Vec<DepotIdx>,
}

pub fn vt(i: usize) -> VehicleTypeIdx {
    VehicleTypeIdx::from(i as u16)
}

impl Bridge {
    pub fn new(input: &Value) -> Result<Bridge, String> {
        let inst = Inst::parse(input)?;
        let net = load_rolling_stock_problem_instance_from_json(input.clone());
        Bridge::from_parts(inst, net)
    }

    pub fn from_parts(inst: Inst, net: Arc<Network>) -> Result<Bridge, String> {
        let mut node_of = HashMap::new();
        let mut idx_of = HashMap::new();
        let mut depot_of = HashMap::new();
        let mut depot_idx = vec![DepotIdx::from(u16::MAX); inst.depots.len()];
        for d in net.depots_iter() {
            let id = net.get_depot(d).id().to_string();
            let k = *inst
                .depot_by_id
                .get(&id)
                .ok_or_else(|| format!("network has depot '{}' the model does not know", id))?;
            depot_of.insert(d, k);
            depot_idx[k] = d;
        }
        for idx in net.all_nodes() {
            let n = match net.node(idx) {
                Node::Service((_, s)) => N::T(*inst
                    .trip_by_id
                    .get(s.id())
                    .ok_or_else(|| format!("unknown trip {}", s.id()))?),
                Node::Maintenance((_, m)) => N::S(*inst
                    .slot_by_id
                    .get(m.id())
                    .ok_or_else(|| format!("unknown slot {}", m.id()))?),
                Node::StartDepot((_, d)) => N::SD(*depot_of.get(&d.depot_idx()).ok_or("depot")?),
                Node::EndDepot((_, d)) => N::ED(*depot_of.get(&d.depot_idx()).ok_or("depot")?),
            };
            node_of.insert(idx, n);
            idx_of.insert(n, idx);
        }
        Ok(Bridge {
            inst,
            net,
            node_of,
            idx_of,
            depot_of,
            depot_idx,
        })
    }

    pub fn n(&self, idx: NodeIdx) -> N {
        self.node_of[&idx]
    }
    pub fn idx(&self, n: N) -> NodeIdx {
        self.idx_of[&n]
    }
    pub fn nodes(&self, v: &[N]) -> Vec<NodeIdx> {
        v.iter().map(|&n| self.idx(n)).collect()
    }
    pub fn ids(&self, v: &[N]) -> Vec<String> {
        v.iter().map(|&n| self.inst.node_id(n)).collect()
    }
}

#[derive(Clone, Debug, PartialEq)]
pub struct TourObs {
    pub nodes: Vec<N>,
    pub is_dummy: bool,
    pub vtype: Option<usize>,
    pub service_distance: Option<i64>,
    pub dead_head_distance: Option<i64>,
    pub useful_duration: i64,
    pub costs: u64,
    pub visits_maintenance: bool,
}

pub fn dist_to_opt(d: Distance) -> Option<i64> {
    match d {
        Distance::Distance(m) => Some(m as i64),
        Distance::Infinity => None,
    }
}

impl TourObs {
    pub fn of(b: &Bridge, tour: &Tour, vtype: Option<usize>) -> TourObs {
        TourObs {
            nodes: tour.all_nodes_iter().map(|n| b.n(n)).collect(),
            is_dummy: tour.is_dummy(),
            vtype,
            service_distance: dist_to_opt(tour.service_distance()),
            dead_head_distance: dist_to_opt(tour.dead_head_distance()),
            useful_duration: tour.useful_duration().in_sec().map(|x| x as i64).unwrap_or(-1),
            costs: tour.costs(),
            visits_maintenance: tour.visits_maintenance(),
        }
    }
    pub fn activities(&self) -> Vec<N> {
        self.nodes.iter().copied().filter(|n| n.is_activity()).collect()
    }
}

#[derive(Clone, Debug, PartialEq)]
pub struct CycleObs {
    pub members: Vec<VehicleIdx>,
    pub counter: i64,
}

#[derive(Clone, Debug, PartialEq)]
pub struct TransObs {
    pub cycles: Vec<CycleObs>,
    pub violation: i64,
    pub counter: i64,
}

impl TransObs {
    pub fn of(t: &solution::transition::Transition) -> TransObs {
        TransObs {
            cycles: t
                .cycles_iter()
                .map(|c| CycleObs {
                    members: c.iter().collect(),
                    counter: c.maintenance_counter(),
                })
                .collect(),
            violation: t.maintenance_violation(),
            counter: t.maintenance_counter(),
        }
    }
    /// cycles as a multiset of canonically rotated non-empty sequences
    pub fn canonical(&self) -> Vec<Vec<VehicleIdx>> {
        let mut v: Vec<Vec<VehicleIdx>> = self
            .cycles
            .iter()
            .filter(|c| !c.members.is_empty())
            .map(|c| {
                let m = &c.members;
                let k = (0..m.len()).min_by_key(|&i| m[i]).unwrap();
                let mut r = m[k..].to_vec();
                r.extend_from_slice(&m[..k]);
                r
            })
            .collect();
        v.sort();
        v
    }
}

/// complete observable state of a schedule
#[derive(Clone, Debug, PartialEq)]
pub struct Obs {
    pub vehicles: BTreeMap<VehicleIdx, TourObs>,
    pub dummies: BTreeMap<VehicleIdx, TourObs>,
    /// as iterated by vehicles_iter(type)
    pub vehicle_listing: Vec<Vec<VehicleIdx>>,
    pub dummy_listing: Vec<VehicleIdx>,
    pub formations: BTreeMap<N, Vec<VehicleIdx>>,
    /// (depot, type) -> (spawn count, balance)
    pub depot_usage: BTreeMap<(usize, usize), (u32, i32)>,
    pub depot_totals: Vec<u32>,
    pub costs: u64,
    pub unserved: (u32, u32),
    pub violation: i64,
    pub number_of_vehicles: usize,
    pub number_of_dummies: usize,
    pub transitions: Vec<TransObs>,
}

impl Obs {
    pub fn of(b: &Bridge, s: &Schedule) -> Obs {
        let ntypes = b.inst.types.len();
        let mut vehicles = BTreeMap::new();
        let mut vehicle_listing = Vec::new();
        for t in 0..ntypes {
            let listing: Vec<VehicleIdx> = s.vehicles_iter(vt(t)).collect();
            vehicle_listing.push(listing);
        }
        // the stored tours (independent of the listing)
        for (v, tour) in s.get_tours().iter() {
            let t = s.vehicle_type_of(*v).ok().map(|x| x.0 as usize);
            vehicles.insert(*v, TourObs::of(b, tour, t));
        }
        let dummy_listing: Vec<VehicleIdx> = s.dummy_iter().collect();
        let mut dummies = BTreeMap::new();
        for &d in &dummy_listing {
            if let Ok(tour) = s.tour_of(d) {
                dummies.insert(d, TourObs::of(b, tour, None));
            }
        }
        let mut formations = BTreeMap::new();
        for idx in b.net.coverable_nodes() {
            formations.insert(b.n(idx), s.train_formation_of(idx).ids());
        }
        let mut depot_usage = BTreeMap::new();
        let mut depot_totals = vec![0; b.inst.depots.len()];
        for d in 0..b.inst.depots.len() {
            let di = b.depot_idx[d];
            depot_totals[d] = s.number_of_vehicles_spawned_at(di);
            for t in 0..ntypes {
                let c = s.number_of_vehicles_of_same_type_spawned_at(di, vt(t));
                let bal = s.depot_balance(di, vt(t));
                if c != 0 || bal != 0 {
                    depot_usage.insert((d, t), (c, bal));
                }
            }
        }
        let transitions = (0..ntypes)
            .map(|t| TransObs::of(s.next_day_transition_of(vt(t))))
            .collect();
        Obs {
            vehicles,
            dummies,
            vehicle_listing,
            dummy_listing,
            formations,
            depot_usage,
            depot_totals,
            costs: s.costs(),
            unserved: s.unserved_passengers(),
            violation: s.maintenance_violation(),
            number_of_vehicles: s.number_of_vehicles(),
            number_of_dummies: s.number_of_dummy_tours(),
            transitions,
        }
    }

    pub fn to_json(&self, b: &Bridge) -> Value {
        let tour = |t: &TourObs| {
            json!({
                "nodes": b.ids(&t.nodes),
                "type": t.vtype.map(|x| b.inst.types[x].id.clone()),
                "serviceDistance": t.service_distance,
                "deadHeadDistance": t.dead_head_distance,
                "usefulDuration": t.useful_duration,
                "costs": t.costs,
                "visitsMaintenance": t.visits_maintenance,
            })
        };
        json!({
            "vehicles": self.vehicles.iter().map(|(v, t)| (v.to_string(), tour(t))).collect::<serde_json::Map<_, _>>(),
            "dummies": self.dummies.iter().map(|(v, t)| (v.to_string(), tour(t))).collect::<serde_json::Map<_, _>>(),
            "formations": self.formations.iter().map(|(n, f)| (b.inst.node_id(*n), json!(f.iter().map(|v| v.to_string()).collect::<Vec<_>>()))).collect::<serde_json::Map<_, _>>(),
            "depotUsage": self.depot_usage.iter().map(|((d, t), (c, bal))| json!({"depot": b.inst.depots[*d].id, "type": b.inst.types[*t].id, "spawned": c, "balance": bal})).collect::<Vec<_>>(),
            "costs": self.costs,
            "unserved": [self.unserved.0, self.unserved.1],
            "maintenanceViolation": self.violation,
            "cycles": self.transitions.iter().map(|t| json!({
                "violation": t.violation, "counter": t.counter,
                "cycles": t.cycles.iter().map(|c| json!({"members": c.members.iter().map(|v| v.to_string()).collect::<Vec<_>>(), "counter": c.counter})).collect::<Vec<_>>()
            })).collect::<Vec<_>>(),
        })
    }

    /// the true lexicographic objective vector (unserved, violation, vehicles, costs)
    /// recomputed by the reference model from the node lists and the cycles
    pub fn true_objective(&self, b: &Bridge) -> (i64, i64, i64, i128) {
        let inst = &b.inst;
        let mut unserved = 0i64;
        for i in 0..inst.trips.len() {
            let mut cap = 0;
            let mut seats = 0;
            for v in self.vehicles.values() {
                if v.nodes.contains(&N::T(i)) {
                    if let Some(t) = v.vtype {
                        cap += inst.types[t].capacity;
                        seats += inst.types[t].seats;
                    }
                }
            }
            unserved += (inst.trips[i].passengers.saturating_sub(cap)
                + inst.trips[i].seated.saturating_sub(seats)) as i64;
        }
        let mut violation = 0i64;
        for tr in &self.transitions {
            for c in &tr.cycles {
                let tours: Vec<&[N]> = c
                    .members
                    .iter()
                    .filter_map(|v| self.vehicles.get(v).map(|t| t.nodes.as_slice()))
                    .collect();
                if tours.len() == c.members.len() {
                    violation += inst.cycle_counter(&tours).max(0);
                }
            }
        }
        let costs: i128 = self
            .vehicles
            .values()
            .map(|t| inst.tour_costs(&t.nodes))
            .sum::<i128>()
            + inst.staff_term();
        (unserved, violation, self.vehicles.len() as i64, costs)
    }
}

// ------------------------------------------------------------------------------------
// C09: cached aggregates equal recomputation

pub fn check_caches(b: &Bridge, o: &Obs) -> Vec<Finding> {
    let inst = &b.inst;
    let mut f = Vec::new();
    let mut check_tour = |who: &VehicleIdx, t: &TourObs| {
        let sd = inst.service_distance(&t.nodes);
        if t.service_distance != Some(sd) {
            f.push(Finding::new(
                "C09",
                "tour.service_distance",
                format!("{}: cached {:?}, recomputed {}", who, t.service_distance, sd),
            ));
        }
        let dh = inst.dead_head_distance(&t.nodes);
        if t.dead_head_distance != dh {
            f.push(Finding::new(
                "C09",
                if t.dead_head_distance.is_none() {
                    "tour.dead_head_distance.stale_infinity"
                } else {
                    "tour.dead_head_distance"
                },
                format!(
                    "{}: cached {:?}, recomputed {:?} for {:?}",
                    who,
                    t.dead_head_distance,
                    dh,
                    b.ids(&t.nodes)
                ),
            ));
        }
        let ud = inst.useful_duration(&t.nodes);
        if t.useful_duration != ud {
            f.push(Finding::new(
                "C09",
                "tour.useful_duration",
                format!("{}: cached {}, recomputed {}", who, t.useful_duration, ud),
            ));
        }
        let c = inst.tour_costs(&t.nodes);
        if t.costs as i128 != c {
            f.push(Finding::new(
                "C09",
                "tour.costs",
                format!("{}: cached {}, recomputed {} for {:?}", who, t.costs, c, b.ids(&t.nodes)),
            ));
        }
        let vm = inst.visits_maintenance(&t.nodes);
        if t.visits_maintenance != vm {
            f.push(Finding::new(
                "C09",
                "tour.visits_maintenance",
                format!("{}: cached {}, recomputed {}", who, t.visits_maintenance, vm),
            ));
        }
    };
    for (v, t) in &o.vehicles {
        check_tour(v, t);
    }
    for (v, t) in &o.dummies {
        check_tour(v, t);
    }
    let (unserved, violation, _, costs) = o.true_objective(b);
    if o.costs as i128 != costs {
        f.push(Finding::new(
            "C09",
            "schedule.costs",
            format!("cached {}, recomputed {}", o.costs, costs),
        ));
    }
    // unserved pair
    let mut pair = (0u64, 0u64);
    for i in 0..inst.trips.len() {
        let mut cap = 0;
        let mut seats = 0;
        for v in o.formations.get(&N::T(i)).map(|x| x.as_slice()).unwrap_or(&[]) {
            if let Some(t) = o.vehicles.get(v).and_then(|t| t.vtype) {
                cap += inst.types[t].capacity;
                seats += inst.types[t].seats;
            }
        }
        pair.0 += inst.trips[i].passengers.saturating_sub(cap);
        pair.1 += inst.trips[i].seated.saturating_sub(seats);
    }
    if (o.unserved.0 as u64, o.unserved.1 as u64) != pair {
        f.push(Finding::new(
            "C09",
            "schedule.unserved",
            format!("cached {:?}, recomputed from formations {:?}", o.unserved, pair),
        ));
    }
    if (o.unserved.0 as i64 + o.unserved.1 as i64) != unserved {
        f.push(Finding::new(
            "C09",
            "schedule.unserved_vs_tours",
            format!("cached {:?}, recomputed from tours {}", o.unserved, unserved),
        ));
    }
    if o.violation != violation {
        f.push(Finding::new(
            "C09",
            "schedule.maintenance_violation",
            format!("cached {}, recomputed from cycles and tours {}", o.violation, violation),
        ));
    }
    // cycle counters and totals
    for (t, tr) in o.transitions.iter().enumerate() {
        let mut tot_v = 0;
        let mut tot_c = 0;
        for (k, c) in tr.cycles.iter().enumerate() {
            let tours: Vec<&[N]> = c
                .members
                .iter()
                .filter_map(|v| o.vehicles.get(v).map(|t| t.nodes.as_slice()))
                .collect();
            if tours.len() != c.members.len() {
                continue; // membership problem: reported by C10
            }
            let rc = inst.cycle_counter(&tours);
            if rc != c.counter {
                f.push(Finding::new(
                    "C09",
                    "cycle.counter",
                    format!(
                        "type {} cycle {} {:?}: cached {}, recomputed {}",
                        inst.types[t].id,
                        k,
                        c.members.iter().map(|v| v.to_string()).collect::<Vec<_>>(),
                        c.counter,
                        rc
                    ),
                ));
            }
            tot_v += rc.max(0);
            tot_c += rc;
        }
        if tr.violation != tot_v || tr.counter != tot_c {
            f.push(Finding::new(
                "C09",
                "cycle.totals",
                format!(
                    "type {}: cached totals (violation {}, counter {}), recomputed ({}, {})",
                    inst.types[t].id, tr.violation, tr.counter, tot_v, tot_c
                ),
            ));
        }
    }
    // depot spawn counts and balances from the tours
    let mut starts: BTreeMap<(usize, usize), i32> = BTreeMap::new();
    let mut ends: BTreeMap<(usize, usize), i32> = BTreeMap::new();
    for t in o.vehicles.values() {
        if let (Some(N::SD(s)), Some(N::ED(e)), Some(ty)) = (t.nodes.first(), t.nodes.last(), t.vtype) {
            *starts.entry((*s, ty)).or_default() += 1;
            *ends.entry((*e, ty)).or_default() += 1;
        }
    }
    let keys: BTreeSet<(usize, usize)> = starts
        .keys()
        .chain(ends.keys())
        .chain(o.depot_usage.keys())
        .copied()
        .collect();
    for k in keys {
        let s = starts.get(&k).copied().unwrap_or(0);
        let e = ends.get(&k).copied().unwrap_or(0);
        let (c, bal) = o.depot_usage.get(&k).copied().unwrap_or((0, 0));
        if c as i32 != s || bal != s - e {
            f.push(Finding::new(
                "C09",
                "depot.usage",
                format!(
                    "depot {} type {}: cached (spawned {}, balance {}), recomputed ({}, {})",
                    inst.depots[k.0].id,
                    inst.types[k.1].id,
                    c,
                    bal,
                    s,
                    s - e
                ),
            ));
        }
    }
    for d in 0..inst.depots.len() {
        let s: i32 = (0..inst.types.len())
            .map(|t| starts.get(&(d, t)).copied().unwrap_or(0))
            .sum();
        if o.depot_totals[d] as i32 != s {
            f.push(Finding::new(
                "C09",
                "depot.total",
                format!("depot {}: cached total {}, recomputed {}", inst.depots[d].id, o.depot_totals[d], s),
            ));
        }
    }
    f
}

// ------------------------------------------------------------------------------------
// C10: structural invariants

pub fn check_structure(b: &Bridge, o: &Obs) -> Vec<Finding> {
    let inst = &b.inst;
    let mut f = Vec::new();
    for (v, t) in &o.vehicles {
        let n = &t.nodes;
        if t.is_dummy {
            f.push(Finding::new("C10", "tour.real_marked_dummy", format!("{} has a dummy tour", v)));
        }
        if !matches!(n.first(), Some(N::SD(_))) {
            f.push(Finding::new("C10", "tour.no_start_depot", format!("{}: {:?}", v, b.ids(n))));
        }
        if !matches!(n.last(), Some(N::ED(_))) {
            f.push(Finding::new("C10", "tour.no_end_depot", format!("{}: {:?}", v, b.ids(n))));
        }
        if n.len() < 3 {
            f.push(Finding::new("C10", "tour.no_activity", format!("{}: {:?}", v, b.ids(n))));
        }
        for (i, x) in n.iter().enumerate() {
            if i > 0 && i + 1 < n.len() && x.is_depot() {
                f.push(Finding::new("C10", "tour.depot_in_the_middle", format!("{}: {:?}", v, b.ids(n))));
            }
            if let N::T(tr) = x {
                if Some(inst.trips[*tr].vtype) != t.vtype {
                    f.push(Finding::new(
                        "C10",
                        "tour.foreign_type_trip",
                        format!("{} (type {:?}) serves {} of type {}", v, t.vtype, inst.trips[*tr].id, inst.trips[*tr].vtype),
                    ));
                }
            }
        }
        for w in n.windows(2) {
            if !inst.connectable(w[0], w[1]) {
                f.push(Finding::new(
                    "C10",
                    "tour.not_connectable",
                    format!("{}: {} cannot be followed by {}", v, inst.node_id(w[0]), inst.node_id(w[1])),
                ));
            }
        }
        let set: BTreeSet<&N> = n.iter().collect();
        if set.len() != n.len() {
            f.push(Finding::new("C10", "tour.node_twice", format!("{}: {:?}", v, b.ids(n))));
        }
    }
    // (dummy tours are not constrained by the property: they may hold maintenance nodes that a
    // real vehicle handed over; nothing is demanded of them here)
    // formations <-> tours
    for (n, form) in &o.formations {
        let set: BTreeSet<&VehicleIdx> = form.iter().collect();
        if set.len() != form.len() {
            f.push(Finding::new(
                "C10",
                "formation.vehicle_twice",
                format!("{}: {:?}", inst.node_id(*n), form.iter().map(|v| v.to_string()).collect::<Vec<_>>()),
            ));
        }
        let should: BTreeSet<&VehicleIdx> = o
            .vehicles
            .iter()
            .filter(|(_, t)| t.nodes.contains(n))
            .map(|(v, _)| v)
            .collect();
        if set != should {
            f.push(Finding::new(
                "C10",
                "formation.not_in_step_with_tours",
                format!(
                    "{}: formation {:?}, vehicles whose tour contains it {:?}",
                    inst.node_id(*n),
                    set.iter().map(|v| v.to_string()).collect::<Vec<_>>(),
                    should.iter().map(|v| v.to_string()).collect::<Vec<_>>()
                ),
            ));
        }
        match n {
            N::T(i) => {
                if let Some(l) = inst.limit(*i) {
                    if form.len() as u64 > l {
                        let shape = match (inst.types[inst.trips[*i].vtype].limit, inst.trips[*i].seg_limit) {
                            (Some(_), Some(_)) => "both",
                            (Some(_), None) => "type_only",
                            (None, Some(_)) => "segment_only",
                            _ => "none",
                        };
                        f.push(Finding::new(
                            "C10",
                            &format!("limit.formation.{}", shape),
                            format!("{} has {} vehicles, limit {}", inst.trips[*i].id, form.len(), l),
                        ));
                    }
                }
            }
            N::S(i) => {
                if form.len() as u64 > inst.slots[*i].tracks {
                    f.push(Finding::new(
                        "C10",
                        "limit.tracks",
                        format!("{} has {} vehicles, {} tracks", inst.slots[*i].id, form.len(), inst.slots[*i].tracks),
                    ));
                }
            }
            _ => {}
        }
    }
    // depot limits (overflow and default depots exempt)
    let mut starts: BTreeMap<(usize, usize), u64> = BTreeMap::new();
    for t in o.vehicles.values() {
        if let (Some(N::SD(s)), Some(ty)) = (t.nodes.first(), t.vtype) {
            *starts.entry((*s, ty)).or_default() += 1;
        }
    }
    for (d, depot) in inst.depots.iter().enumerate() {
        if depot.kind != DepotKind::Given {
            continue;
        }
        let total: u64 = (0..inst.types.len()).map(|t| starts.get(&(d, t)).copied().unwrap_or(0)).sum();
        if let Some(c) = depot.capacity {
            if total > c {
                f.push(Finding::new("C10", "limit.depot_total", format!("{}: {} start, capacity {}", depot.id, total, c)));
            }
        }
        for t in 0..inst.types.len() {
            let k = starts.get(&(d, t)).copied().unwrap_or(0);
            if let Some(c) = depot.cap_for(t) {
                if k > c {
                    f.push(Finding::new(
                        "C10",
                        "limit.depot_type",
                        format!("{}: {} of type {} start, allowed {}", depot.id, k, inst.types[t].id, c),
                    ));
                }
            }
        }
    }
    // listings
    for (t, listing) in o.vehicle_listing.iter().enumerate() {
        if listing.windows(2).any(|w| w[0] >= w[1]) {
            f.push(Finding::new("C10", "listing.vehicles_not_sorted", format!("type {}: {:?}", t, listing)));
        }
        let should: Vec<VehicleIdx> = o
            .vehicles
            .iter()
            .filter(|(_, x)| x.vtype == Some(t))
            .map(|(v, _)| *v)
            .collect();
        let mut l = listing.clone();
        l.sort();
        if l != should {
            f.push(Finding::new(
                "C10",
                "listing.vehicles_mismatch",
                format!("type {}: listed {:?}, tours stored for {:?}", t, listing, should),
            ));
        }
    }
    if o.dummy_listing.windows(2).any(|w| w[0] >= w[1]) {
        f.push(Finding::new("C10", "listing.dummies_not_sorted", format!("{:?}", o.dummy_listing)));
    }
    if o.dummy_listing.len() != o.number_of_dummies || o.dummies.len() != o.number_of_dummies {
        f.push(Finding::new(
            "C10",
            "listing.dummies_mismatch",
            format!("listed {:?}, stored {}", o.dummy_listing, o.number_of_dummies),
        ));
    }
    if o.number_of_vehicles != o.vehicles.len() {
        f.push(Finding::new(
            "C10",
            "listing.vehicle_count",
            format!("number_of_vehicles {} but {} tours", o.number_of_vehicles, o.vehicles.len()),
        ));
    }
    if o.vehicles.keys().any(|v| v.is_dummy()) || o.dummies.keys().any(|v| v.is_real()) {
        f.push(Finding::new("C10", "listing.id_kind", "dummy id among vehicles or vice versa".to_string()));
    }
    // cycles: every real vehicle in exactly one cycle of its type
    for (t, tr) in o.transitions.iter().enumerate() {
        let mut count: BTreeMap<VehicleIdx, usize> = BTreeMap::new();
        for c in &tr.cycles {
            for v in &c.members {
                *count.entry(*v).or_default() += 1;
            }
        }
        for (v, x) in &o.vehicles {
            if x.vtype == Some(t) {
                let c = count.get(v).copied().unwrap_or(0);
                if c != 1 {
                    f.push(Finding::new(
                        "C10",
                        "cycles.membership",
                        format!("{} of type {} is in {} cycles", v, inst.types[t].id, c),
                    ));
                }
            }
        }
        for v in count.keys() {
            if o.vehicles.get(v).map(|x| x.vtype != Some(t)).unwrap_or(true) {
                f.push(Finding::new(
                    "C10",
                    "cycles.foreign_member",
                    format!("cycles of type {} contain {} which is no vehicle of that type", inst.types[t].id, v),
                ));
            }
        }
    }
    f
}
