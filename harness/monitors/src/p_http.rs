//! C18: the HTTP service answers each request with its own solution and isolates failures.
//! The real `server` binary runs on an ephemeral port; hostile client threads record a history
//! at the client boundary; an offline checker judges the history.

use crate::gen::{self, GenOpts, Profile};
use crate::orch::{CaseOut, Ctx};
use crate::rng::{hash_str, mix, Rng};
use refmodel::output::check_output;
use refmodel::Inst;
use serde_json::{json, Value};
use std::collections::BTreeSet;
use std::io::{Read, Write};
use std::net::{TcpListener, TcpStream};
use std::path::PathBuf;
use std::process::{Child, Command, Stdio};
use std::sync::{Arc, Barrier, Mutex};
use std::time::{Duration, Instant};

fn server_binary() -> PathBuf {
    let me = std::env::current_exe().unwrap();
    let target = me.parent().unwrap().parent().unwrap();
    target.join("repo-ws").join("release").join("server")
}

struct Server {
    child: Child,
    port: u16,
}

impl Drop for Server {
    fn drop(&mut self) {
        let _ = self.child.kill();
        let _ = self.child.wait();
    }
}

fn start_server(threads: usize) -> Result<Server, String> {
    for _ in 0..5 {
        let port = {
            let l = TcpListener::bind("127.0.0.1:0").map_err(|e| e.to_string())?;
            l.local_addr().map_err(|e| e.to_string())?.port()
        };
        let child = Command::new(server_binary())
            .arg(port.to_string())
            .env("RAYON_NUM_THREADS", threads.to_string())
            .env("RUST_BACKTRACE", "0")
            .stdin(Stdio::null())
            .stdout(Stdio::null())
            .stderr(Stdio::null())
            .spawn()
            .map_err(|e| format!("cannot start {}: {}", server_binary().display(), e))?;
        let mut s = Server { child, port };
        let t0 = Instant::now();
        while t0.elapsed() < Duration::from_secs(10) {
            if let Ok(Some(_)) = s.child.try_wait() {
                break; // port taken or crashed: retry with another port
            }
            if let Outcome::Response { status: 200, .. } = http(port, "GET", "/health", None, &[], Delivery::Plain, 2) {
                return Ok(s);
            }
            std::thread::sleep(Duration::from_millis(20));
        }
    }
    Err("server did not become healthy".to_string())
}

#[derive(Clone, Debug)]
pub enum Outcome {
    Response { status: u16, body: Vec<u8> },
    /// connection closed / reset / timed out without a complete response: the request stays open
    Closed(String),
}

#[derive(Clone, Copy, Debug, PartialEq)]
pub enum Delivery {
    Plain,
    /// body written in small pieces with pauses
    Dribble,
    /// connection dropped after half of the body
    DisconnectMidBody,
    /// the complete request is sent, then the client goes away before the answer (impatient client)
    HangUpAfterRequest(u64),
    /// `Transfer-Encoding: chunked` instead of `Content-Length`
    Chunked,
}

fn http(port: u16, method: &str, path: &str, content_type: Option<&str>, body: &[u8], delivery: Delivery, timeout_s: u64) -> Outcome {
    let mut stream = match TcpStream::connect(("127.0.0.1", port)) {
        Ok(s) => s,
        Err(e) => return Outcome::Closed(format!("connect: {}", e)),
    };
    let _ = stream.set_nodelay(true);
    let _ = stream.set_read_timeout(Some(Duration::from_secs(timeout_s)));
    let _ = stream.set_write_timeout(Some(Duration::from_secs(timeout_s)));
    let mut head = format!("{} {} HTTP/1.1\r\nHost: localhost\r\nConnection: close\r\n", method, path);
    if let Some(ct) = content_type {
        head.push_str(&format!("Content-Type: {}\r\n", ct));
    }
    if method == "POST" {
        if delivery == Delivery::Chunked {
            head.push_str("Transfer-Encoding: chunked\r\n");
        } else {
            head.push_str(&format!("Content-Length: {}\r\n", body.len()));
        }
    }
    head.push_str("\r\n");
    if let Err(e) = stream.write_all(head.as_bytes()) {
        return Outcome::Closed(format!("write head: {}", e));
    }
    match delivery {
        Delivery::Plain => {
            if let Err(e) = stream.write_all(body) {
                return Outcome::Closed(format!("write body: {}", e));
            }
        }
        Delivery::Dribble => {
            // ~40 pieces, plus cuts INSIDE multi-byte UTF-8 characters (up to 6 of them)
            let piece = (body.len() / 40).max(1);
            let mut cuts: Vec<usize> = (1..).map(|k| k * piece).take_while(|&c| c < body.len()).collect();
            let mut inside = 0;
            for i in 1..body.len() {
                if body[i] & 0xC0 == 0x80 && inside < 6 {
                    cuts.push(i); // between a lead byte and its continuation byte
                    inside += 1;
                }
            }
            cuts.push(body.len());
            cuts.sort();
            cuts.dedup();
            let mut from = 0;
            for c in cuts {
                if let Err(e) = stream.write_all(&body[from..c]) {
                    return Outcome::Closed(format!("write body: {}", e));
                }
                from = c;
                let _ = stream.flush();
                std::thread::sleep(Duration::from_millis(2));
            }
        }
        Delivery::Chunked => {
            let piece = (body.len() / 7).max(1);
            for chunk in body.chunks(piece) {
                let mut framed = format!("{:x}\r\n", chunk.len()).into_bytes();
                framed.extend_from_slice(chunk);
                framed.extend_from_slice(b"\r\n");
                if let Err(e) = stream.write_all(&framed) {
                    return Outcome::Closed(format!("write body: {}", e));
                }
            }
            if let Err(e) = stream.write_all(b"0\r\n\r\n") {
                return Outcome::Closed(format!("write body: {}", e));
            }
        }
        Delivery::HangUpAfterRequest(ms) => {
            if let Err(e) = stream.write_all(body) {
                return Outcome::Closed(format!("write body: {}", e));
            }
            let _ = stream.flush();
            std::thread::sleep(Duration::from_millis(ms));
            let _ = stream.shutdown(std::net::Shutdown::Both);
            return Outcome::Closed("client hung up after the complete request".to_string());
        }
        Delivery::DisconnectMidBody => {
            let _ = stream.write_all(&body[..body.len() / 2]);
            let _ = stream.flush();
            std::thread::sleep(Duration::from_millis(5));
            return Outcome::Closed("client disconnected mid-body".to_string());
        }
    }
    let _ = stream.flush();
    let mut buf = Vec::new();
    match stream.read_to_end(&mut buf) {
        Ok(_) => {}
        Err(e) => {
            if matches!(e.kind(), std::io::ErrorKind::WouldBlock | std::io::ErrorKind::TimedOut) {
                // the client gave up waiting: says nothing about the server (loaded machine)
                return Outcome::Closed(format!("client-timeout after {}s", timeout_s));
            }
            if buf.is_empty() {
                return Outcome::Closed(format!("read: {}", e));
            }
        }
    }
    if buf.is_empty() {
        return Outcome::Closed("connection closed without a response".to_string());
    }
    // parse status line and split the body
    let pos = match buf.windows(4).position(|w| w == b"\r\n\r\n") {
        Some(p) => p,
        None => return Outcome::Closed("incomplete response head".to_string()),
    };
    let head = String::from_utf8_lossy(&buf[..pos]).to_string();
    let status: u16 = head.split_whitespace().nth(1).and_then(|s| s.parse().ok()).unwrap_or(0);
    let mut body = buf[pos + 4..].to_vec();
    if head.to_ascii_lowercase().contains("transfer-encoding: chunked") {
        body = dechunk(&body);
    } else if let Some(cl) = head
        .lines()
        .find(|l| l.to_ascii_lowercase().starts_with("content-length:"))
        .and_then(|l| l.split(':').nth(1))
        .and_then(|v| v.trim().parse::<usize>().ok())
    {
        if body.len() < cl {
            return Outcome::Closed(format!("response body truncated ({} of {} bytes)", body.len(), cl));
        }
    }
    Outcome::Response { status, body }
}

/// A persistent HTTP/1.1 connection (no `Connection: close`): several requests in a row, or
/// several written back-to-back before the first answer is read (pipelining).
struct KeepAlive {
    stream: TcpStream,
    buf: Vec<u8>,
}

/// the wire form of one request of a keep-alive session (None: kind is not used there)
fn wire_request(kind: &Kind, valid: &[ValidInstance]) -> Option<Vec<u8>> {
    let (method, path, ct, body): (&str, &str, Option<&str>, Vec<u8>) = match kind {
        Kind::Health => ("GET", "/health", None, vec![]),
        Kind::SolveValid(i) => ("POST", "/solve", Some("application/json"), valid[*i].body.clone()),
        Kind::NotJson => ("POST", "/solve", Some("application/json"), b"this is not json at all".to_vec()),
        Kind::TruncatedJson(i) => {
            let b = &valid[*i].body;
            ("POST", "/solve", Some("application/json"), b[..b.len() * 2 / 3].to_vec())
        }
        Kind::WrongContentType(i) => ("POST", "/solve", Some("text/plain"), valid[*i].body.clone()),
        Kind::EmptyBody => ("POST", "/solve", Some("application/json"), vec![]),
        Kind::MissingField(i) | Kind::DanglingReference(i) | Kind::BadTimestamp(i) | Kind::MatrixMismatch(i) => {
            ("POST", "/solve", Some("application/json"), corrupt(&valid[*i].input, kind))
        }
        Kind::UnknownRoute => ("GET", "/no/such/route", None, vec![]),
        Kind::WrongMethod => ("GET", "/solve", None, vec![]),
        _ => return None,
    };
    let mut w = format!("{} {} HTTP/1.1\r\nHost: localhost\r\n", method, path);
    if let Some(ct) = ct {
        w.push_str(&format!("Content-Type: {}\r\n", ct));
    }
    if method == "POST" {
        w.push_str(&format!("Content-Length: {}\r\n", body.len()));
    }
    w.push_str("\r\n");
    let mut w = w.into_bytes();
    w.extend_from_slice(&body);
    Some(w)
}

impl KeepAlive {
    fn connect(port: u16, timeout_s: u64) -> Option<KeepAlive> {
        let stream = TcpStream::connect(("127.0.0.1", port)).ok()?;
        let _ = stream.set_nodelay(true);
        let _ = stream.set_read_timeout(Some(Duration::from_secs(timeout_s)));
        let _ = stream.set_write_timeout(Some(Duration::from_secs(timeout_s)));
        Some(KeepAlive { stream, buf: Vec::new() })
    }

    fn fill(&mut self) -> Result<usize, String> {
        let mut tmp = [0u8; 16384];
        match self.stream.read(&mut tmp) {
            Ok(0) => Err("connection closed".to_string()),
            Ok(n) => {
                self.buf.extend_from_slice(&tmp[..n]);
                Ok(n)
            }
            Err(e) if matches!(e.kind(), std::io::ErrorKind::WouldBlock | std::io::ErrorKind::TimedOut) => Err("client-timeout on a keep-alive connection".to_string()),
            Err(e) => Err(format!("read: {}", e)),
        }
    }

    /// read exactly one response off the connection; the bool says whether the server announced
    /// `Connection: close`
    fn read_response(&mut self) -> (Outcome, bool) {
        let pos = loop {
            if let Some(p) = self.buf.windows(4).position(|w| w == b"\r\n\r\n") {
                break p;
            }
            if let Err(e) = self.fill() {
                let why = if self.buf.is_empty() { e } else { format!("incomplete response head ({})", e) };
                return (Outcome::Closed(why), true);
            }
        };
        let head = String::from_utf8_lossy(&self.buf[..pos]).to_string();
        let lower = head.to_ascii_lowercase();
        let status: u16 = head.split_whitespace().nth(1).and_then(|s| s.parse().ok()).unwrap_or(0);
        let closing = lower.contains("connection: close");
        self.buf.drain(..pos + 4);
        let body = if lower.contains("transfer-encoding: chunked") {
            // read until the terminating zero-length chunk
            loop {
                if let Some(end) = chunked_end(&self.buf) {
                    let raw: Vec<u8> = self.buf.drain(..end).collect();
                    break dechunk(&raw);
                }
                if let Err(e) = self.fill() {
                    return (Outcome::Closed(format!("response body truncated ({})", e)), true);
                }
            }
        } else {
            let cl = lower
                .lines()
                .find(|l| l.starts_with("content-length:"))
                .and_then(|l| l.split(':').nth(1))
                .and_then(|v| v.trim().parse::<usize>().ok())
                .unwrap_or(0);
            while self.buf.len() < cl {
                if let Err(e) = self.fill() {
                    return (Outcome::Closed(format!("response body truncated ({})", e)), true);
                }
            }
            self.buf.drain(..cl).collect()
        };
        (Outcome::Response { status, body }, closing)
    }
}

/// index just behind the terminating chunk of a chunked body, if it is complete
fn chunked_end(b: &[u8]) -> Option<usize> {
    let mut i = 0;
    loop {
        let end = i + b.get(i..)?.windows(2).position(|w| w == b"\r\n")?;
        let n = usize::from_str_radix(String::from_utf8_lossy(&b[i..end]).split(';').next().unwrap_or("").trim(), 16).ok()?;
        let s = end + 2;
        if n == 0 {
            // trailers are not used by the server: expect the final CRLF
            return if b.len() >= s + 2 { Some(s + 2) } else { None };
        }
        if b.len() < s + n + 2 {
            return None;
        }
        i = s + n + 2;
    }
}

/// One keep-alive session: the plan is cut into groups; the requests of a group are written
/// back-to-back before the first answer is read (group size 1 = plain sequential reuse).
/// A request whose connection went away before its answer, although the connection had already
/// carried other requests (the server may close a connection after a failure, and HTTP lets it
/// close an idle one at any time), was possibly never received: it is sent again on a fresh
/// connection and that answer is judged.  Returns (events, retried).
fn keep_alive_session(port: u16, client: usize, plan: &[(Kind, usize)], valid: &[ValidInstance], t0: Instant) -> (Vec<Event>, u64, u64) {
    let mut events = Vec::new();
    let mut retried = 0u64;
    let mut answered_on_reused_connection = 0u64;
    let mut conn: Option<KeepAlive> = None;
    let mut carried = 0usize; // requests already answered on `conn`
    let mut i = 0;
    while i < plan.len() {
        let group = plan[i].1.max(1);
        let kinds: Vec<Kind> = plan[i..(i + group).min(plan.len())].iter().map(|(k, _)| k.clone()).collect();
        i += kinds.len();
        if conn.is_none() {
            conn = KeepAlive::connect(port, 300);
            carried = 0;
        }
        let call_ns = t0.elapsed().as_nanos();
        let mut write_failed = conn.is_none();
        if let Some(c) = conn.as_mut() {
            let mut all = Vec::new();
            for k in &kinds {
                all.extend_from_slice(&wire_request(k, valid).expect("kind usable in keep-alive sessions"));
            }
            if c.stream.write_all(&all).and_then(|_| c.stream.flush()).is_err() {
                write_failed = true;
            }
        }
        let mut lost = write_failed;
        for (pos, k) in kinds.iter().enumerate() {
            let fresh_and_first = carried == 0 && pos == 0;
            let mut outcome = if lost {
                Outcome::Closed("connection closed".to_string())
            } else {
                let (o, closing) = conn.as_mut().unwrap().read_response();
                if matches!(o, Outcome::Closed(_)) || closing {
                    lost = true;
                }
                o
            };
            let timed_out = matches!(&outcome, Outcome::Closed(w) if w.starts_with("client-timeout"));
            if matches!(outcome, Outcome::Closed(_)) && !fresh_and_first && !timed_out {
                retried += 1;
                outcome = perform(port, k, valid);
            } else if matches!(outcome, Outcome::Response { .. }) {
                if !fresh_and_first {
                    answered_on_reused_connection += 1;
                }
                carried += 1;
            }
            let ret_ns = t0.elapsed().as_nanos();
            events.push(Event { client, seq: events.len(), kind: k.clone(), call_ns, ret_ns, outcome });
        }
        if lost {
            conn = None;
        }
    }
    (events, retried, answered_on_reused_connection)
}

fn dechunk(b: &[u8]) -> Vec<u8> {
    let mut out = Vec::new();
    let mut i = 0;
    while i < b.len() {
        let end = match b[i..].windows(2).position(|w| w == b"\r\n") {
            Some(p) => i + p,
            None => break,
        };
        let n = usize::from_str_radix(String::from_utf8_lossy(&b[i..end]).trim(), 16).unwrap_or(0);
        if n == 0 {
            break;
        }
        let s = end + 2;
        if s + n > b.len() {
            break;
        }
        out.extend_from_slice(&b[s..s + n]);
        i = s + n + 2;
    }
    out
}

#[derive(Clone, Debug, PartialEq)]
pub enum Kind {
    Health,
    SolveValid(usize), // index into the scenario's valid instances
    SolveValidDribbled(usize),
    /// the same valid request in another legitimate shape (media type spelling / parameters,
    /// chunked body, pretty-printed body)
    SolveValidShaped(usize, u8),
    NotJson,
    TruncatedJson(usize),
    WrongContentType(usize),
    EmptyBody,
    Garbage5Mb,
    DisconnectMidBody(usize),
    /// a complete valid request whose client hangs up after the given number of ms, before the answer
    HangUpAfterRequest(usize, u64),
    MissingField(usize),
    DanglingReference(usize),
    BadTimestamp(usize),
    MatrixMismatch(usize),
    /// loadable-looking inputs that fail at different depths of the pipeline
    LocationNotInMatrixAtOrigin(usize),
    LocationNotInMatrixAtDepot(usize),
    SlotEndsBeforeStart(usize),
    DanglingVehicleType(usize),
    RaggedMatrix(usize),
    UnknownRoute,
    WrongMethod,
}

impl Kind {
    pub fn name(&self) -> &'static str {
        match self {
            Kind::Health => "health",
            Kind::SolveValid(_) => "solve_valid",
            Kind::SolveValidDribbled(_) => "solve_valid_dribbled",
            Kind::SolveValidShaped(_, _) => "solve_valid_shaped",
            Kind::NotJson => "fault.not_json",
            Kind::TruncatedJson(_) => "fault.truncated_json",
            Kind::WrongContentType(_) => "fault.wrong_content_type",
            Kind::EmptyBody => "fault.empty_body",
            Kind::Garbage5Mb => "fault.garbage_5mb",
            Kind::DisconnectMidBody(_) => "fault.disconnect_mid_body",
            Kind::HangUpAfterRequest(_, _) => "fault.hang_up_after_request",
            Kind::MissingField(_) => "fault.invalid.missing_field",
            Kind::DanglingReference(_) => "fault.invalid.dangling_reference",
            Kind::BadTimestamp(_) => "fault.invalid.bad_timestamp",
            Kind::MatrixMismatch(_) => "fault.invalid.matrix_mismatch",
            Kind::LocationNotInMatrixAtOrigin(_) => "fault.invalid.location_not_in_matrix_at_origin",
            Kind::LocationNotInMatrixAtDepot(_) => "fault.invalid.location_not_in_matrix_at_depot",
            Kind::SlotEndsBeforeStart(_) => "fault.invalid.slot_ends_before_start",
            Kind::DanglingVehicleType(_) => "fault.invalid.dangling_vehicle_type",
            Kind::RaggedMatrix(_) => "fault.invalid.ragged_matrix",
            Kind::UnknownRoute => "fault.unknown_route",
            Kind::WrongMethod => "fault.wrong_method",
        }
    }
    fn is_fault(&self) -> bool {
        self.name().starts_with("fault")
    }
    fn may_be_answered(&self) -> bool {
        matches!(
            self,
            Kind::LocationNotInMatrixAtOrigin(_) | Kind::LocationNotInMatrixAtDepot(_) | Kind::SlotEndsBeforeStart(_) | Kind::DanglingVehicleType(_) | Kind::RaggedMatrix(_)
        )
    }
    /// faults that make the handler panic inside solve_instance
    fn panics_in_handler(&self) -> bool {
        matches!(
            self,
            Kind::DanglingReference(_)
                | Kind::BadTimestamp(_)
                | Kind::MatrixMismatch(_)
                | Kind::LocationNotInMatrixAtOrigin(_)
                | Kind::LocationNotInMatrixAtDepot(_)
                | Kind::SlotEndsBeforeStart(_)
                | Kind::DanglingVehicleType(_)
                | Kind::RaggedMatrix(_)
        )
    }
}

#[derive(Clone, Debug)]
pub struct Event {
    pub client: usize,
    pub seq: usize,
    pub kind: Kind,
    pub call_ns: u128,
    pub ret_ns: u128,
    pub outcome: Outcome,
}

struct ValidInstance {
    input: Value,
    body: Vec<u8>,
    inst: Inst,
    tag: String,
    /// clauses that already fail in the isolated dry run (they belong to other properties)
    dry_run_clauses: BTreeSet<String>,
}

fn corrupt(v: &Value, kind: &Kind) -> Vec<u8> {
    let mut x = v.clone();
    match kind {
        Kind::MissingField(_) => {
            x.as_object_mut().unwrap().remove("routes");
        }
        Kind::DanglingReference(_) => {
            x["departures"][0]["route"] = json!("no-such-route");
        }
        Kind::BadTimestamp(_) => {
            x["departures"][0]["segments"][0]["departure"] = json!("yesterday at noon");
        }
        Kind::MatrixMismatch(_) => {
            x["deadHeadTrips"]["durations"] = json!([[0]]);
            x["deadHeadTrips"]["distances"] = json!([[0]]);
            if x["locations"].as_array().map(|a| a.len()).unwrap_or(0) < 2 {
                x["deadHeadTrips"]["durations"] = json!([]);
                x["deadHeadTrips"]["distances"] = json!([]);
            }
        }
        Kind::LocationNotInMatrixAtOrigin(_) => {
            x["locations"].as_array_mut().unwrap().push(json!({"id": "nowhere-in-the-matrix"}));
            x["routes"][0]["segments"][0]["origin"] = json!("nowhere-in-the-matrix");
        }
        Kind::LocationNotInMatrixAtDepot(_) => {
            x["locations"].as_array_mut().unwrap().push(json!({"id": "nowhere-in-the-matrix"}));
            let vt = x["vehicleTypes"][0]["id"].clone();
            let depot = json!({"id": "depot-nowhere", "location": "nowhere-in-the-matrix", "capacity": 5, "allowedTypes": [{"vehicleType": vt, "capacity": 5}]});
            match x.get_mut("depots").and_then(|d| d.as_array_mut()) {
                Some(ds) => ds.push(depot),
                None => x["depots"] = json!([depot]),
            }
        }
        Kind::SlotEndsBeforeStart(_) => {
            let (st, en) = (json!("2024-03-04T10:00:00"), json!("2024-03-04T09:00:00"));
            let loc = x["locations"][0]["id"].clone();
            let slot = json!({"id": "slot-backwards", "location": loc, "start": st, "end": en, "trackCount": 1});
            match x.get_mut("maintenanceSlots").and_then(|d| d.as_array_mut()) {
                Some(ms) => ms.push(slot),
                None => x["maintenanceSlots"] = json!([slot]),
            }
        }
        Kind::DanglingVehicleType(_) => {
            x["routes"][0]["vehicleType"] = json!("no-such-type");
        }
        Kind::RaggedMatrix(_) => {
            if let Some(row) = x["deadHeadTrips"]["durations"][0].as_array_mut() {
                row.pop();
            }
        }
        _ => {}
    }
    serde_json::to_vec(&x).unwrap()
}

fn perform(port: u16, kind: &Kind, valid: &[ValidInstance]) -> Outcome {
    let js = Some("application/json");
    match kind {
        Kind::Health => http(port, "GET", "/health", None, &[], Delivery::Plain, 60),
        Kind::SolveValid(i) => http(port, "POST", "/solve", js, &valid[*i].body, Delivery::Plain, 300),
        Kind::SolveValidDribbled(i) => http(port, "POST", "/solve", js, &valid[*i].body, Delivery::Dribble, 300),
        Kind::SolveValidShaped(i, shape) => match shape % 7 {
            0 => http(port, "POST", "/solve", Some("application/json; charset=utf-8"), &valid[*i].body, Delivery::Plain, 300),
            1 => http(port, "POST", "/solve", Some("application/json;charset=UTF-8"), &valid[*i].body, Delivery::Plain, 300),
            2 => http(port, "POST", "/solve", Some("Application/JSON"), &valid[*i].body, Delivery::Plain, 300),
            3 => http(port, "POST", "/solve", Some("application/vnd.api+json"), &valid[*i].body, Delivery::Plain, 300),
            4 => http(port, "POST", "/solve", js, &valid[*i].body, Delivery::Chunked, 300),
            5 => {
                let mut pretty = b"\n  ".to_vec();
                pretty.extend_from_slice(&serde_json::to_vec_pretty(&valid[*i].input).unwrap());
                pretty.extend_from_slice(b"\n\n");
                http(port, "POST", "/solve", js, &pretty, Delivery::Plain, 300)
            }
            _ => http(port, "POST", "/solve", Some("APPLICATION/JSON; charset=utf-8"), &valid[*i].body, Delivery::Chunked, 300),
        },
        Kind::NotJson => http(port, "POST", "/solve", js, b"this is not json at all", Delivery::Plain, 60),
        Kind::TruncatedJson(i) => {
            let b = &valid[*i].body;
            http(port, "POST", "/solve", js, &b[..b.len() * 2 / 3], Delivery::Plain, 60)
        }
        Kind::WrongContentType(i) => http(port, "POST", "/solve", Some("text/plain"), &valid[*i].body, Delivery::Plain, 60),
        Kind::EmptyBody => http(port, "POST", "/solve", js, &[], Delivery::Plain, 60),
        Kind::Garbage5Mb => {
            let g: Vec<u8> = (0..5_000_000u32).map(|i| b"{[\"x\":1,]}"[(i % 10) as usize]).collect();
            http(port, "POST", "/solve", js, &g, Delivery::Plain, 60)
        }
        Kind::DisconnectMidBody(i) => http(port, "POST", "/solve", js, &valid[*i].body, Delivery::DisconnectMidBody, 60),
        Kind::HangUpAfterRequest(i, ms) => http(port, "POST", "/solve", js, &valid[*i].body, Delivery::HangUpAfterRequest(*ms), 60),
        Kind::MissingField(i)
        | Kind::DanglingReference(i)
        | Kind::BadTimestamp(i)
        | Kind::MatrixMismatch(i)
        | Kind::LocationNotInMatrixAtOrigin(i)
        | Kind::LocationNotInMatrixAtDepot(i)
        | Kind::SlotEndsBeforeStart(i)
        | Kind::DanglingVehicleType(i)
        | Kind::RaggedMatrix(i) => {
            http(port, "POST", "/solve", js, &corrupt(&valid[*i].input, kind), Delivery::Plain, 120)
        }
        Kind::UnknownRoute => http(port, "GET", "/no/such/route", None, &[], Delivery::Plain, 60),
        Kind::WrongMethod => http(port, "GET", "/solve", None, &[], Delivery::Plain, 60),
    }
}

fn is_schedule_answer(body: &[u8]) -> bool {
    serde_json::from_slice::<Value>(body)
        .map(|v| v.get("schedule").is_some() && v.get("objectiveValue").is_some())
        .unwrap_or(false)
}

fn judge_event(e: &Event, valid: &[ValidInstance], out: &mut CaseOut, phase: &str) {
    match (&e.kind, &e.outcome) {
        (Kind::Health, Outcome::Response { status, body }) => {
            if *status != 200 || body.as_slice() != b"Healthy" {
                out.viol("C18", "health.wrong_answer", format!("GET /health answered {} '{}' ({})", status, String::from_utf8_lossy(body), phase));
            }
        }
        (_, Outcome::Closed(why)) if why.starts_with("client-timeout") => {
            out.inconclusive.push(format!("client gave up waiting for a {} request ({})", e.kind.name(), why));
        }
        (Kind::Health, Outcome::Closed(why)) => {
            out.viol("C18", "health.no_answer", format!("GET /health got no answer: {} ({})", why, phase));
        }
        (Kind::SolveValid(i), o) | (Kind::SolveValidDribbled(i), o) | (Kind::SolveValidShaped(i, _), o) => {
            let vi = &valid[*i];
            match o {
                Outcome::Closed(why) => out.viol(
                    "C18",
                    &format!("solve.valid_request_not_answered.{}", phase),
                    format!("valid instance {} got no answer: {} (client {}, request {})", vi.tag, why, e.client, e.seq),
                ),
                Outcome::Response { status, body } => {
                    if *status != 200 {
                        out.viol(
                            "C18",
                            &format!("solve.valid_request_status.{}", phase),
                            format!("valid instance {} answered with status {}: {}", vi.tag, status, String::from_utf8_lossy(&body[..body.len().min(200)])),
                        );
                        return;
                    }
                    let ans: Value = match serde_json::from_slice(body) {
                        Ok(v) => v,
                        Err(_) => {
                            out.viol("C18", "solve.answer_not_json", format!("answer for {} is not JSON", vi.tag));
                            return;
                        }
                    };
                    // (a) the answer carries exactly the request's departure segments
                    let got: BTreeSet<String> = ans["schedule"]["departureSegments"]
                        .as_array()
                        .map(|a| a.iter().filter_map(|x| x["departureSegment"].as_str().map(|s| s.to_string())).collect())
                        .unwrap_or_default();
                    let want: BTreeSet<String> = vi.inst.trips.iter().map(|t| t.id.clone()).collect();
                    if got != want {
                        let foreign = got.iter().find(|x| !x.starts_with(&vi.tag)).cloned().unwrap_or_default();
                        out.viol(
                            "C18",
                            "solve.answer_belongs_to_another_request",
                            format!("request {} was answered with departure segments of another instance (e.g. '{}'); {} of {} ids match", vi.tag, foreign, got.intersection(&want).count(), want.len()),
                        );
                        return;
                    }
                    // (b) it is a valid solution of exactly that instance
                    let rep = check_output(&vi.inst, &ans);
                    for f in rep.findings {
                        let key = format!("{}:{}", f.prop, f.clause);
                        if !vi.dry_run_clauses.contains(&key) {
                            out.viol(
                                "C18",
                                &format!("solve.invalid_solution.{}.{}", f.prop, f.clause),
                                format!("answer for {} under load violates {}: {}", vi.tag, f.prop, f.detail),
                            );
                        }
                    }
                }
            }
        }
        // an inconsistent instance whose broken part happens to be unused may be solved: that is
        // no isolation failure (these kinds are there to make handlers die at different depths)
        (k, Outcome::Response { .. }) if k.may_be_answered() => {
            let _ = k;
        }
        (k, Outcome::Response { status, body }) if k.is_fault() => {
            if *status == 200 && is_schedule_answer(body) {
                out.viol("C18", &format!("{}.answered_with_a_schedule", k.name()), format!("a {} request got 200 with a schedule", k.name()));
            }
            if !matches!(k, Kind::UnknownRoute) && *status == 200 && !matches!(k, Kind::WrongMethod) {
                out.viol("C18", &format!("{}.answered_200", k.name()), format!("a {} request got status 200: {}", k.name(), String::from_utf8_lossy(&body[..body.len().min(120)])));
            }
        }
        _ => {} // faults that end in a closed connection are fine
    }
}

/// make one dead-head connection longer than a one-day planning horizon (the loader clamps it to
/// the horizon of the instance it is loaded for)
fn force_long_dead_head(x: &mut Value, rng: &mut Rng) {
    let n = x["deadHeadTrips"]["indices"].as_array().map(|a| a.len()).unwrap_or(0);
    if n < 2 {
        return;
    }
    for _ in 0..rng.usize(1, 3) {
        let i = rng.usize(0, n - 1);
        let k = (i + rng.usize(1, n - 1)) % n;
        x["deadHeadTrips"]["durations"][i][k] = json!(rng.range(25, 40) * 3600);
    }
}

/// the same instance (all ids kept, so that any state keyed on ids or on a part of the request
/// would be hit) with other departure ids and ONE section changed in value
fn sibling(base: &Value, base_tag: &str, new_tag: &str, rng: &mut Rng) -> Value {
    let mut x = base.clone();
    match rng.below(6) {
        0 => {
            // smaller vehicles: more vehicles needed
            if let Some(ts) = x["vehicleTypes"].as_array_mut() {
                for t in ts.iter_mut() {
                    let c = (t["capacity"].as_u64().unwrap_or(100) / 2).max(1);
                    let s = t["seats"].as_u64().unwrap_or(50).min(c).max(1);
                    t["capacity"] = json!(c);
                    t["seats"] = json!(s);
                }
            }
        }
        1 => {
            // other cost coefficients and no shunting times
            x["parameters"]["costs"]["serviceTrip"] = json!(rng.range(1, 90));
            x["parameters"]["costs"]["deadHeadTrip"] = json!(rng.range(1, 500));
            x["parameters"]["costs"]["idle"] = json!(rng.range(0, 40));
            x["parameters"]["costs"]["staff"] = json!(rng.range(0, 150));
            x["parameters"]["shunting"]["minimalDuration"] = json!(0);
            x["parameters"]["shunting"]["deadHeadTripDuration"] = json!(0);
        }
        2 => {
            // scarce depots
            if let Some(ds) = x["depots"].as_array_mut() {
                for d in ds.iter_mut() {
                    d["capacity"] = json!(rng.range(0, 1));
                }
            }
        }
        3 => {
            // other distances on routes and dead-heads
            if let Some(rs) = x["routes"].as_array_mut() {
                for r in rs.iter_mut() {
                    if let Some(segs) = r["segments"].as_array_mut() {
                        for sg in segs.iter_mut() {
                            sg["distance"] = json!(rng.range(1, 200) * 1000);
                            sg.as_object_mut().unwrap().remove("maximalFormationCount");
                        }
                    }
                }
            }
        }
        4 => {
            // other maintenance allowance and track counts
            x["parameters"]["maintenance"] = json!({ "maximalDistance": rng.range(0, 300) * 1000 });
            if let Some(ms) = x["maintenanceSlots"].as_array_mut() {
                for m in ms.iter_mut() {
                    m["trackCount"] = json!(rng.range(1, 3));
                }
            }
        }
        _ => {} // only the horizon changes (below)
    }
    if let Some(deps) = x["departures"].as_array_mut() {
        let n = deps.len();
        let shift_from = rng.usize(0, n.saturating_sub(1));
        for (k, d) in deps.iter_mut().enumerate() {
            let id = d["id"].as_str().unwrap_or("").replacen(base_tag, new_tag, 1);
            d["id"] = json!(id);
            if let Some(segs) = d["segments"].as_array_mut() {
                for sg in segs.iter_mut() {
                    let sid = sg["id"].as_str().unwrap_or("").replacen(base_tag, new_tag, 1);
                    sg["id"] = json!(sid);
                    if k >= shift_from {
                        if let Ok(t) = refmodel::time::parse(sg["departure"].as_str().unwrap_or("")) {
                            sg["departure"] = json!(refmodel::time::format(t + 86400));
                        }
                    }
                }
            }
        }
    }
    x
}

/// solve the instance in a fresh child process; None = the pipeline cannot answer it at all,
/// Some(clauses) = the oracle clauses that already fail in isolation
fn dry_run(input: &Value, inst: &Inst) -> Option<BTreeSet<String>> {
    let me = std::env::current_exe().ok()?;
    let dir = me.parent()?.parent()?;
    let stamp = format!("{}-{:x}", std::process::id(), hash_str(&input.to_string()));
    let infile = dir.join(format!("dry-{}.in.json", stamp));
    let outfile = dir.join(format!("dry-{}.out.json", stamp));
    std::fs::write(&infile, serde_json::to_vec(input).ok()?).ok()?;
    let status = Command::new(&me)
        .arg("solve")
        .arg(&infile)
        .arg(&outfile)
        .stdin(Stdio::null())
        .stdout(Stdio::null())
        .stderr(Stdio::null())
        .status();
    let answer: Option<Value> = std::fs::read(&outfile).ok().and_then(|b| serde_json::from_slice(&b).ok());
    let _ = std::fs::remove_file(&infile);
    let _ = std::fs::remove_file(&outfile);
    if !status.map(|s| s.success()).unwrap_or(false) {
        return None;
    }
    let answer = answer?;
    let rep = check_output(inst, &answer);
    Some(rep.findings.iter().map(|f| format!("{}:{}", f.prop, f.clause)).collect())
}

pub fn case(ctx: &Ctx, idx: u64) -> CaseOut {
    let mut out = CaseOut::default();
    crate::orch::announce_cpu_budget(900.0);
    let mut rng = Rng::new(mix(&[ctx.seed, hash_str("http"), idx]));
    // ---------------------------------------------------------------- valid instances
    let n_valid = rng.usize(3, 6);
    let mut valid: Vec<ValidInstance> = Vec::new();
    let mut attempts = 0;
    while valid.len() < n_valid && attempts < 30 {
        attempts += 1;
        let big = rng.chance(1, 3);
        let profile = *rng.pick(&[Profile::Mixed, Profile::Maint, Profile::Depots, Profile::Ties, Profile::Limits]);
        let mut opts = GenOpts::new(profile, if big { rng.usize(18, 30) } else { rng.usize(2, 8) });
        opts.force_slots = rng.chance(1, 2);
        let tag = format!("w{}c{}r{}", ctx.seed, idx, attempts);
        let mut input = gen::generate(&mut rng, &opts, &tag);
        if rng.chance(1, 3) {
            // hostile ids, among them multi-byte UTF-8 characters (dribbled bodies are cut inside them)
            gen::hostile_ids(&mut rng, &mut input, &tag);
            out.count("instances_with_hostile_ids", 1);
        }
        if rng.chance(1, 3) {
            force_long_dead_head(&mut input, &mut rng);
            out.count("instances_with_dead_head_longer_than_a_day", 1);
        }
        let inst = Inst::parse(&input).expect("parse");
        // isolated dry run (own process, so that no process-wide state of earlier solves can leak
        // into it): an instance the pipeline cannot answer at all is C06's business
        let t_dry = Instant::now();
        let dry = dry_run(&input, &inst);
        if t_dry.elapsed() > Duration::from_millis(2500) {
            // a scenario sends every instance dozens of times to a server with 1-4 worker threads
            out.count("instances_screened_out_as_too_slow_for_a_burst", 1);
            continue;
        }
        match dry {
            None => {
                out.count("instances_screened_out_by_dry_run", 1);
                continue;
            }
            Some(dry) => {
                if !dry.is_empty() {
                    out.count("instances_with_dry_run_findings", 1);
                }
                // a sibling: same locations, matrices, types, routes, depots, slots - other
                // departure ids and a longer planning horizon (catches state keyed on a part of
                // the request)
                if rng.chance(2, 3) {
                    let stag = format!("{}x", tag);
                    let sib = sibling(&input, &tag, &stag, &mut rng);
                    if let Ok(sinst) = Inst::parse(&sib) {
                        if let Some(sdry) = dry_run(&sib, &sinst) {
                            out.count("sibling_instances", 1);
                            valid.push(ValidInstance { body: serde_json::to_vec(&sib).unwrap(), input: sib, inst: sinst, tag: stag, dry_run_clauses: sdry });
                        }
                    }
                }
                valid.push(ValidInstance { body: serde_json::to_vec(&input).unwrap(), input, inst, tag, dry_run_clauses: dry });
            }
        }
    }
    if valid.len() < 2 {
        out.inconclusive.push("fewer than two valid instances survived the dry run".to_string());
        return out;
    }
    // ---------------------------------------------------------------- server
    let threads = *rng.pick(&[1usize, 2, 4]);
    let mut server = match start_server(threads) {
        Ok(s) => s,
        Err(e) => {
            out.inconclusive.push(format!("server could not be started: {}", e));
            return out;
        }
    };
    let port = server.port;
    // ---------------------------------------------------------------- scenario
    let n_clients = if ctx.thorough() { rng.usize(8, 64) } else { rng.usize(4, 16) };
    let mut plans: Vec<Vec<(Kind, u64)>> = Vec::new();
    for c in 0..n_clients {
        let mut plan = Vec::new();
        for _ in 0..rng.usize(1, 4) {
            let v = rng.usize(0, valid.len() - 1);
            let kind = match rng.below(100) {
                0..=24 => Kind::SolveValid(v),
                25..=31 => Kind::SolveValidShaped(v, rng.below(7) as u8),
                32..=39 => Kind::SolveValidDribbled(v),
                40..=51 => Kind::Health,
                52..=55 => Kind::NotJson,
                56..=59 => Kind::TruncatedJson(v),
                60..=62 => Kind::WrongContentType(v),
                63..=65 => Kind::EmptyBody,
                66 => Kind::Garbage5Mb,
                67..=68 => Kind::DisconnectMidBody(v),
                69..=70 => Kind::HangUpAfterRequest(v, [0, 1, 3, 10, 40, 150][rng.usize(0, 5)]),
                71..=75 => Kind::MissingField(v),
                76..=78 => Kind::DanglingReference(v),
                79..=80 => Kind::LocationNotInMatrixAtOrigin(v),
                81..=82 => Kind::LocationNotInMatrixAtDepot(v),
                83..=85 => Kind::BadTimestamp(v),
                86 => Kind::SlotEndsBeforeStart(v),
                87 => Kind::DanglingVehicleType(v),
                88 => Kind::RaggedMatrix(v),
                89..=93 => Kind::MatrixMismatch(v),
                94..=96 => Kind::UnknownRoute,
                _ => Kind::WrongMethod,
            };
            plan.push((kind, rng.below(30)));
        }
        // make sure overlap is possible: the first clients start with valid solves and a panicking one
        if c == 0 || c == 1 {
            plan.insert(0, (Kind::SolveValid(rng.usize(0, valid.len() - 1)), 0));
        }
        if c == 2 {
            plan.insert(0, (Kind::DanglingReference(0), 0));
        }
        plans.push(plan);
    }
    let valid = Arc::new(valid);
    let history: Arc<Mutex<Vec<Event>>> = Arc::new(Mutex::new(Vec::new()));
    let barrier = Arc::new(Barrier::new(n_clients));
    let t0 = Instant::now();
    let mut handles = Vec::new();
    for (c, plan) in plans.into_iter().enumerate() {
        let valid = valid.clone();
        let history = history.clone();
        let barrier = barrier.clone();
        handles.push(std::thread::spawn(move || {
            barrier.wait();
            for (seq, (kind, delay_ms)) in plan.into_iter().enumerate() {
                std::thread::sleep(Duration::from_millis(delay_ms));
                let call_ns = t0.elapsed().as_nanos();
                let outcome = perform(port, &kind, &valid);
                let ret_ns = t0.elapsed().as_nanos();
                history.lock().unwrap().push(Event { client: c, seq, kind, call_ns, ret_ns, outcome });
            }
        }));
    }
    for h in handles {
        let _ = h.join();
    }
    let alive_after_burst = matches!(server.child.try_wait(), Ok(None));
    // ---------------------------------------------------------------- keep-alive sessions: connections that carry several
    // requests in a row (valid after invalid on the SAME connection, other instances one after the
    // other) and pipelined groups written before the first answer is read; several sessions at once
    let ka_events: Arc<Mutex<Vec<Event>>> = Arc::new(Mutex::new(Vec::new()));
    let ka_stats: Arc<Mutex<(u64, u64, u64)>> = Arc::new(Mutex::new((0, 0, 0)));
    if alive_after_burst {
        let n_sessions = if ctx.thorough() { rng.usize(3, 8) } else { rng.usize(2, 4) };
        let mut hs = Vec::new();
        for c in 0..n_sessions {
            let mut plan: Vec<(Kind, usize)> = Vec::new();
            for _ in 0..rng.usize(3, if ctx.thorough() { 9 } else { 6 }) {
                let v = rng.usize(0, valid.len() - 1);
                let kind = match rng.below(20) {
                    0..=8 => Kind::SolveValid(v),
                    9..=10 => Kind::Health,
                    11 => Kind::NotJson,
                    12 => Kind::TruncatedJson(v),
                    13 => Kind::WrongContentType(v),
                    14 => Kind::EmptyBody,
                    15 => Kind::MissingField(v),
                    16 => Kind::DanglingReference(v),
                    17 => Kind::BadTimestamp(v),
                    18 => Kind::UnknownRoute,
                    _ => Kind::WrongMethod,
                };
                // group size: 1 = wait for the answer first, 2-3 = pipelined with the following ones
                plan.push((kind, if rng.chance(1, 3) { rng.usize(2, 3) } else { 1 }));
            }
            // every session carries at least two different valid instances back to back
            let a = rng.usize(0, valid.len() - 1);
            plan.push((Kind::SolveValid(a), 2));
            plan.push((Kind::SolveValid((a + 1) % valid.len()), 1));
            let valid = valid.clone();
            let ka_events = ka_events.clone();
            let ka_stats = ka_stats.clone();
            hs.push(std::thread::spawn(move || {
                let (ev, retried, reused) = keep_alive_session(port, 2000 + c, &plan, &valid, t0);
                let pipelined = plan.iter().filter(|(_, g)| *g > 1).count() as u64;
                ka_events.lock().unwrap().extend(ev);
                let mut st = ka_stats.lock().unwrap();
                st.0 += retried;
                st.1 += reused;
                st.2 += pipelined;
            }));
        }
        for h in hs {
            let _ = h.join();
        }
        out.count("keep_alive_sessions", n_sessions as u64);
    }
    let alive_after_keep_alive = matches!(server.child.try_wait(), Ok(None));
    // ---------------------------------------------------------------- soak: hundreds of failing requests on the same process
    // (a resource that a failing request does not give back - a slot, a permit, a thread - runs
    // out only after many of them)
    let soak = idx % 3 == 1;
    let soak_events: Arc<Mutex<Vec<Event>>> = Arc::new(Mutex::new(Vec::new()));
    if soak && alive_after_burst && alive_after_keep_alive {
        let per_thread = if ctx.thorough() { 250 } else { 60 };
        let n_threads = 8;
        let mut hs = Vec::new();
        for c in 0..n_threads {
            let valid = valid.clone();
            let soak_events = soak_events.clone();
            let mut r = Rng::new(mix(&[ctx.seed, hash_str("soak"), idx, c as u64]));
            hs.push(std::thread::spawn(move || {
                // faults are derived from the smallest instance: some of them are solvable and the
                // soak is about the number of failing requests, not about solve time
                let smallest = (0..valid.len()).min_by_key(|&i| valid[i].body.len()).unwrap_or(0);
                for seq in 0..per_thread {
                    let v = if r.chance(3, 4) { smallest } else { r.usize(0, valid.len() - 1) };
                    let kind = match r.below(14) {
                        0 => Kind::DanglingReference(v),
                        1 => Kind::BadTimestamp(v),
                        2 => Kind::MatrixMismatch(v),
                        3 | 4 => Kind::LocationNotInMatrixAtOrigin(v),
                        5 | 6 => Kind::LocationNotInMatrixAtDepot(v),
                        7 => Kind::SlotEndsBeforeStart(v),
                        8 => Kind::DanglingVehicleType(v),
                        9 => Kind::RaggedMatrix(v),
                        10 => Kind::NotJson,
                        11 => if seq % 2 == 0 { Kind::DisconnectMidBody(v) } else { Kind::HangUpAfterRequest(v, [0, 1, 2, 5, 20][r.usize(0, 4)]) },
                        12 => Kind::MissingField(v),
                        _ => Kind::Health,
                    };
                    let call_ns = t0.elapsed().as_nanos();
                    let outcome = perform(port, &kind, &valid);
                    let ret_ns = t0.elapsed().as_nanos();
                    soak_events.lock().unwrap().push(Event { client: 1000 + c, seq, kind, call_ns, ret_ns, outcome });
                }
            }));
        }
        for h in hs {
            let _ = h.join();
        }
    }
    let alive_after_soak = matches!(server.child.try_wait(), Ok(None));
    // ---------------------------------------------------------------- quiescent probes
    let mut probes: Vec<Event> = Vec::new();
    if alive_after_burst && alive_after_keep_alive && alive_after_soak {
        let mut kinds = vec![Kind::Health, Kind::SolveValid(0), Kind::Health];
        if soak {
            // every valid instance once more on the worn process
            for i in 1..valid.len() {
                kinds.push(if i % 2 == 0 { Kind::SolveValid(i) } else { Kind::SolveValidShaped(i, i as u8) });
            }
        }
        for (seq, kind) in kinds.into_iter().enumerate() {
            let call_ns = t0.elapsed().as_nanos();
            let outcome = perform(port, &kind, &valid);
            let ret_ns = t0.elapsed().as_nanos();
            probes.push(Event { client: usize::MAX, seq, kind, call_ns, ret_ns, outcome });
        }
    }
    let alive_at_end = matches!(server.child.try_wait(), Ok(None));
    drop(server);

    // ---------------------------------------------------------------- offline checker
    let hist = history.lock().unwrap().clone();
    if !alive_after_burst || !alive_after_keep_alive || !alive_after_soak || !alive_at_end {
        out.viol(
            "C18",
            "server.process_exited",
            format!("the server process exited during the scenario (alive after burst: {}, after keep-alive sessions: {}, after soak: {}, at end: {})", alive_after_burst, alive_after_keep_alive, alive_after_soak, alive_at_end),
        );
    }
    let soak_hist = soak_events.lock().unwrap().clone();
    if std::env::var("VERIF_HTTP_TRACE").is_ok() {
        for e in history.lock().unwrap().iter().chain(soak_hist.iter()).chain(probes.iter()) {
            let ms = (e.ret_ns - e.call_ns) / 1_000_000;
            if ms > 3000 {
                eprintln!("slow request: client {} seq {} {} took {} ms -> {:?}", e.client, e.seq, e.kind.name(), ms, match &e.outcome { Outcome::Response { status, .. } => format!("status {}", status), Outcome::Closed(w) => w.clone() });
            }
        }
    }
    if soak {
        out.count("soak_scenarios", 1);
    }
    for e in &soak_hist {
        out.count("soak_requests", 1);
        out.count(&format!("soak.{}", e.kind.name()), 1);
        if e.kind.panics_in_handler() && matches!(e.outcome, Outcome::Closed(_)) {
            out.count("soak_requests_whose_handler_died", 1);
        }
        judge_event(e, &valid, &mut out, "soak");
    }
    for e in &hist {
        out.count(&format!("requests.{}", e.kind.name()), 1);
        if matches!(e.outcome, Outcome::Closed(_)) {
            out.count("requests_without_response", 1);
        }
        judge_event(e, &valid, &mut out, "under_load");
    }
    let ka_hist = ka_events.lock().unwrap().clone();
    {
        let st = ka_stats.lock().unwrap();
        out.count("keep_alive_requests_resent_on_a_fresh_connection", st.0);
        out.count("keep_alive_requests_answered_on_a_reused_connection", st.1);
        out.count("keep_alive_pipelined_groups", st.2);
    }
    for e in &ka_hist {
        out.count("keep_alive_requests", 1);
        out.count(&format!("keep_alive.{}", e.kind.name()), 1);
        judge_event(e, &valid, &mut out, "keep_alive");
    }
    for e in &probes {
        out.count("probe_requests", 1);
        judge_event(e, &valid, &mut out, "after_faults");
    }
    // overlap statistics from the history
    let solves: Vec<&Event> = hist.iter().filter(|e| matches!(e.kind, Kind::SolveValid(_) | Kind::SolveValidDribbled(_) | Kind::SolveValidShaped(_, _))).collect();
    let panicking: Vec<&Event> = hist.iter().filter(|e| e.kind.panics_in_handler()).collect();
    let overlaps = |a: &Event, b: &Event| a.call_ns < b.ret_ns && b.call_ns < a.ret_ns;
    let mut solve_pairs = 0u64;
    let mut solve_fault_pairs = 0u64;
    for (i, a) in solves.iter().enumerate() {
        for b in solves.iter().skip(i + 1) {
            if overlaps(a, b) {
                solve_pairs += 1;
            }
        }
        for p in &panicking {
            if overlaps(a, p) {
                solve_fault_pairs += 1;
            }
        }
    }
    let mut points: Vec<(u128, i32)> = Vec::new();
    for e in &hist {
        points.push((e.call_ns, 1));
        points.push((e.ret_ns, -1));
    }
    points.sort();
    let (mut cur, mut maxc) = (0, 0);
    for (_, d) in &points {
        cur += d;
        maxc = maxc.max(cur);
    }
    out.count("overlapping_valid_solve_pairs", solve_pairs);
    out.count("valid_solve_overlapping_panicking_request_pairs", solve_fault_pairs);
    out.count("max_requests_in_flight", maxc as u64);
    out.count("scenarios", 1);
    out.count("clients", n_clients as u64);
    // interleaving signature: order of call/return events by (client, seq)
    let mut order: Vec<(u128, String)> = Vec::new();
    for e in &hist {
        order.push((e.call_ns, format!("c{}.{}+", e.client, e.seq)));
        order.push((e.ret_ns, format!("c{}.{}-", e.client, e.seq)));
    }
    order.sort();
    let sig = hash_str(&order.iter().map(|(_, s)| s.as_str()).collect::<Vec<_>>().join(","));
    if solve_pairs >= 1 && solve_fault_pairs >= 1 {
        out.nontrivial.push(format!("{:016x}", sig));
    }
    let hist_json: Vec<Value> = hist
        .iter()
        .chain(ka_hist.iter())
        .chain(probes.iter())
        .map(|e| {
            json!({
                "client": if e.client == usize::MAX { json!("probe") } else { json!(e.client) },
                "seq": e.seq, "kind": e.kind.name(),
                "tag": match &e.kind { Kind::SolveValid(i) | Kind::SolveValidDribbled(i) | Kind::SolveValidShaped(i, _) => json!(valid[*i].tag), _ => Value::Null },
                "call_ns": e.call_ns.to_string(), "ret_ns": e.ret_ns.to_string(),
                "outcome": match &e.outcome { Outcome::Response { status, body } => json!({"status": status, "body_bytes": body.len()}), Outcome::Closed(w) => json!({"open": w}) },
            })
        })
        .collect();
    if !out.viols.is_empty() {
        out.witness = Some(json!({"server_threads": threads, "history": hist_json, "valid_instances": valid.iter().map(|v| json!({"tag": v.tag, "input": v.input})).collect::<Vec<_>>()}));
    }
    if idx % 7 == 0 {
        out.sample = Some(json!({"scenario": idx, "server_rayon_threads": threads, "clients": n_clients, "max_in_flight": maxc, "overlapping_solve_pairs": solve_pairs, "history": hist_json.iter().take(12).collect::<Vec<_>>()}));
    }
    out
}
