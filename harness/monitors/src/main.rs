mod bridge;
mod gen;
mod orch;
mod p_flow;
mod p_http;
mod p_hist;
mod p_ls;
mod p_nbh;
mod p_net;
mod p_pipe;
mod p_solve;
mod p_tour;
mod p_trans;
mod rng;

use orch::{CaseFn, RunSpec};
use serde_json::Map;

fn case_fn_for(prop: &str) -> CaseFn {
    match prop {
        "C01" | "C02" | "C03" | "C04" | "C05" | "C06" | "C07" => p_solve::case,
        "C09" | "C10" | "C13" => p_hist::case,
        "C08" => p_ls::case,
        "C11" => p_nbh::case,
        "C16" => p_pipe::case,
        "C18" => p_http::case,
        "C12" => p_tour::case,
        "C14" => p_flow::case,
        "C15" => p_trans::case,
        "C17" => p_net::case,
        _ => panic!("unknown property {}", prop),
    }
}

fn spec_for(prop: &str, tier: &str, seed: u64) -> RunSpec {
    let thorough = tier == "thorough";
    let mut s = RunSpec {
        prop: prop.to_string(),
        tier: tier.to_string(),
        seed,
        cases: if thorough { 20000 } else { 1500 },
        workers: 16,
        cpu_budget_s: 30.0,
        wall_limit_s: if thorough { 6.0 * 3600.0 } else { 1800.0 },
        variants: vec!["release".to_string()],
        crash_is_violation: false,
        level: "exploration".to_string(),
        rule: String::new(),
        min_nontrivial: 10,
        rayon_threads: vec![1, 2, 1, 4],
        extra_coverage: Map::new(),
        variant_case_limit: std::collections::BTreeMap::new(),
    };
    let gen_rule = "instances drawn by the seeded generator (8 hostile profiles, unique tag per instance) plus the repository's 3 bundled inputs, each solved by the real server::solve_instance; ";
    match prop {
        "C01" => s.rule = format!("{}non-trivial = distinct instances whose answer has a vehicle with >= 2 activities (a consecutive pair was checked)", gen_rule),
        "C02" => s.rule = format!("{}non-trivial = distinct instances whose answer has a binding formation limit, a full maintenance slot or a depot filled to capacity", gen_rule),
        "C03" => s.rule = format!("{}non-trivial = distinct instances whose answer has a coupled formation (>= 2 vehicles) and at least one dead-head trip", gen_rule),
        "C04" => s.rule = format!("{}non-trivial = distinct instances whose answer has maintenance violation > 0, unserved passengers > 0 or an idle gap between two activities", gen_rule),
        "C05" => {
            s.rule = format!("{}non-trivial = distinct instances whose answer has a rotation cycle of length >= 2", gen_rule);
        }
        "C06" => {
            s.rule = format!("{}every instance is run in the release and in the checked (overflow-checks, debug-assertions) build; non-trivial = every distinct instance (a full pipeline run)", gen_rule);
            s.variants = vec!["release".to_string(), "checked".to_string()];
            s.cases = if thorough { 20000 } else { 1000 };
            s.crash_is_violation = true;
        }
        "C09" | "C10" | "C13" => {
            s.rule = "seeded random walks (30-200 operations) over the public modification API of Schedule, starting from the empty schedule, one-vehicle-per-trip and the min-cost-flow solution; after every Ok operation the full observable state is snapshotted and judged; non-trivial = distinct (instance, operation kind, argument shape) triples that returned Ok and changed the state; monitor_counters lists every covered shape cell".to_string();
            s.cases = if thorough { 250000 } else { 6000 };
            s.min_nontrivial = 50;
        }
        "C08" => {
            s.rule = "instances with maintenance slots; the real build_local_search_solver(..).solve() runs on the depot-improved min-cost-flow solution while hook H1 records every accepted step; offline trace checker: recorded objective vectors = true (unserved, violation, vehicles, costs) recomputed by the reference model in that order, every step strictly lexicographically improving, chain gapless from the start solution to the returned result, result <= start, second run accepts nothing, and an independent scan of neighbors_of(result) finds nothing better. non-trivial = distinct instances whose search accepted >= 1 step".to_string();
            s.cases = if thorough { 20000 } else { 5000 };
            s.cpu_budget_s = 60.0;
        }
        "C11" => {
            s.rule = "walks through RSSchedParallelNeighborhood::neighbors_of picking a uniformly random (not improving) candidate, from min-cost-flow, one-vehicle-per-trip and history-reached states, production and unlimited segment parameters, RAYON_NUM_THREADS in {1,2,4,16}, with concurrent generation on a shared base; every candidate is snapshotted and passes the complete C09 (recomputation) and C10 (structure) oracles, the base schedule is compared before/after. non-trivial = distinct (instance, walk prefix) states with a non-empty neighbourhood".to_string();
            s.cases = if thorough { 6000 } else { 300 };
            s.cpu_budget_s = 60.0;
            s.crash_is_violation = true;
            s.rayon_threads = vec![1, 2, 4, 16];
            if thorough && std::env::var("VERIF_TSAN").map(|v| v == "1").unwrap_or(false) {
                // supplementary: a reduced workload under ThreadSanitizer (concurrent generation on shared bases)
                s.variants.push("tsan".to_string());
                s.variant_case_limit.insert("tsan".to_string(), 400);
            }
        }
        "C16" => {
            s.rule = "one server::solve_instance call per generated instance (maintenance/depot heavy), hook H2 records the schedules bound after each stage and the optimiser's transitions, hook H1 the search steps; trace checker: start = depot-improved flow solution, search result = end of the step chain, optimised schedule carries T*, final schedule has the search result's activities, T* as cycles (as multisets of cyclic sequences) and end depots following T*, the JSON is the final schedule with T* as vehicleCycles and a truthful objective; the cycles the answer carries are a fixpoint of a re-run of the real optimiser; hand-over probe: the search result is handed cycles rearranged by 1-4 random move_vehicle steps per type through Schedule::set_next_day_transitions and must carry exactly them and the sum of their violations (counters handover_probes, handover_probe_types_rearranged, handover_probe_types_with_larger_counter_than_before). non-trivial = distinct instances where the optimiser's cycles differ from the search result's (otherwise a dropped stage is unobservable)".to_string();
            s.cases = if thorough { 20000 } else { 4000 };
            s.cpu_budget_s = 60.0;
            s.min_nontrivial = 10;
        }
        "C18" => {
            s.rule = "scenarios against the real server binary on an ephemeral port (one process per scenario): 4-64 concurrent std::net client threads released by a barrier mix GET /health, POST /solve with fresh uniquely tagged valid instances (pre-screened by an isolated dry run; a third of them large), and the fixed list of fault kinds (not JSON, truncated JSON, wrong content type, empty body, 5 MB garbage, dribbled body, disconnect mid-body, client hanging up after a complete valid request, missing field, dangling reference, bad timestamp, matrix mismatch, location missing in the dead-head matrix (at a route origin / at a depot), maintenance slot ending before it starts, dangling vehicle type, ragged matrix, unknown route, wrong method) with seeded delays; the history is recorded at the client boundary from one monotonic clock (a request without a response stays open) and judged offline: health = 200 Healthy, every answered valid solve carries exactly its own departure segments and passes the C01-C05/C07 oracles for its own input, faults never yield a schedule, the process is alive and answers a health and a solve probe after the burst. After the burst 2-8 concurrent keep-alive sessions carry 5-11 requests each on ONE connection (valid after invalid, different instances in a row, pipelined groups of 2-3 requests whose answers must come back in order); a request lost with a connection that had already carried others is re-sent on a fresh connection and judged there. non-trivial = distinct interleaving signatures of scenarios in which >= 2 valid solves overlapped each other and >= 1 overlapped a request that panics inside the handler".to_string();
            s.level = "fault_enumeration".to_string();
            s.cases = if thorough { 400 } else { 48 };
            s.workers = 8;
            s.cpu_budget_s = 900.0;
            s.min_nontrivial = 4;
            s.rayon_threads = vec![2];
            s.extra_coverage.insert("fault_kinds".into(), serde_json::json!(["not_json", "truncated_json", "wrong_content_type", "empty_body", "garbage_5mb", "dribbled_body", "disconnect_mid_body", "hang_up_after_request", "missing_field", "dangling_reference", "bad_timestamp", "matrix_mismatch", "location_not_in_matrix_at_origin", "location_not_in_matrix_at_depot", "slot_ends_before_start", "dangling_vehicle_type", "ragged_matrix", "unknown_route", "wrong_method"]));
            s.extra_coverage.insert("keep_alive".into(), serde_json::json!("counters keep_alive_requests / _answered_on_a_reused_connection / _resent_on_a_fresh_connection / keep_alive_pipelined_groups under 'observed'"));
            s.extra_coverage.insert("soak".into(), serde_json::json!("every third scenario continues, after the concurrent burst, with 480 (quick) / 2000 (thorough) failing requests from 8 threads against the same server process and then solves every valid instance once more"));
        }
        "C12" => {
            let fam = p_tour::family_chunks(thorough);
            s.rule = format!("direct calls of Tour::insert_path/remove/sub_path/conflict/check_removable on tours obtained through Schedule::tour_of, compared with the reference insert/remove semantics. Bounded family: 2 locations, 5 time slots, activities of 1-2 slots, <= 3 non-depot nodes (trips, slots), dead-head 0-2 slots per direction, shunting 0/1 slots, forbid on/off = {} networks ({} with <= 2 nodes); in each network every chain as real and as dummy tour x every chain as path (4 depot variants) x every segment. quick: all networks with <= 2 nodes + 60 seeded chunks of the 3-node part + random networks; thorough: the whole family + random networks up to 12 nodes. non-trivial = distinct (network, tour, argument) triples where a node was dropped, a time tie exists between argument and tour, or a removal had to be refused", p_tour::family_size(), p_tour::family_size_le2());
            s.cases = fam + if thorough { 4000 } else { 60 + 200 };
            s.cpu_budget_s = 120.0;
            s.min_nontrivial = 1000;
            s.extra_coverage.insert("family_networks_total".into(), serde_json::json!(p_tour::family_size()));
            s.extra_coverage.insert("family_chunks_enumerated".into(), serde_json::json!(fam));
            s.extra_coverage.insert("exhaustive".into(), serde_json::json!(thorough));
            s.extra_coverage.insert("exhaustive_note".into(), serde_json::json!(if thorough { "the bounded family was enumerated completely (valid only if no case was inconclusive, see inconclusive_cases)" } else { "quick tier enumerates the <= 2-node part of the family completely and samples the rest" }));
        }
        "C15" => {
            s.rule = format!("(a) bounded-exhaustive: 4 hand-picked vehicles (maintenance-visiting and not, depots P0/P1/overflow) on a fixed small instance, ALL sequences of Transition operations (new_fast, update_vehicle via replace_start/end_depot, add_vehicle_to_own_cycle, remove_vehicle, add_vehicle_at_the_end, move_vehicle incl. into empty cycles, three_opt+replace_cycle) up to length {} from 4 start transitions, bookkeeping (cycles, lookup and empty list through hook H3, counters, totals, successor) recomputed after every operation; (b) random sequences of 50-300 operations on up to 12 vehicles of generated instances; (c) the transitions of pipeline start solutions and the transition optimiser applied to them. non-trivial = distinct operation sequences that passed through a state with an empty cycle, a singleton cycle and a negative counter, plus optimiser runs that changed the transition", p_trans::exhaustive_depth(thorough));
            s.cases = if thorough { 30000 } else { 520 };
            s.cpu_budget_s = 120.0;
            s.extra_coverage.insert("exhaustive".into(), serde_json::json!(true));
            s.extra_coverage.insert("exhaustive_note".into(), serde_json::json!(format!("all operation sequences up to length {} over the 4-vehicle world were enumerated (cases 0..exhaustive_cases are the subtrees per start world and first operation); valid only if no case was inconclusive", p_trans::exhaustive_depth(thorough))));
        }
        "C14" => {
            s.rule = "instances with decoupled depot totals from the seeded generator; MinCostFlowSolver::solve() is observed through public getters and compared per vehicle type with an independent min-cost circulation (successive shortest paths, lexicographic (vehicles, cost)) over ALL connectable pairs; non-trivial = distinct instances whose start solution chains >= 2 activities in some tour".to_string();
            s.cases = if thorough { 2000000 } else { 20000 };
        }
        "C17" => {
            s.rule = "instances from the seeded generator (emphasis ties, non-metric, forbidden dead-heads); every public getter of the loaded Network is compared with the reference model, can_reach for ALL ordered node pairs, successors/predecessors for every node and type as sets; non-trivial = distinct instances containing >= 1 zero-slack pair and >= 1 pair with a location change".to_string();
            s.cases = if thorough { 2000000 } else { 10000 };
        }
        "C07" => s.rule = format!("{}non-trivial = distinct instances with a segment needing >= 2 vehicles", gen_rule),
        _ => {}
    }
    s
}

fn main() {
    let args: Vec<String> = std::env::args().collect();
    if args.len() < 2 {
        eprintln!("usage: vmon run <prop> <tier> | worker ...");
        std::process::exit(2);
    }
    match args[1].as_str() {
        "worker" => {
            let prop = args[2].clone();
            orch::worker_main(&args[2..], case_fn_for(&prop));
        }
        "run" => {
            let prop = &args[2];
            let tier = args.get(3).map(|s| s.as_str()).unwrap_or("quick");
            let seed: u64 = std::env::var("VERIF_SEED").ok().and_then(|s| s.parse().ok()).unwrap_or(1);
            let mut spec = spec_for(prop, tier, seed);
            if let Ok(c) = std::env::var("VERIF_CASES") {
                if let Ok(n) = c.parse() {
                    spec.cases = n;
                }
            }
            std::process::exit(orch::run(&spec));
        }
        "replay" => {
            // vmon replay <ID> <witness file>: re-execute the recorded case against the current tree
            let prop = &args[2];
            let w: serde_json::Value = serde_json::from_str(&std::fs::read_to_string(&args[3]).expect("read witness")).expect("witness json");
            let tier = w["tier"].as_str().unwrap_or("quick").to_string();
            let seed = w["seed"].as_u64().unwrap_or(1);
            let case = w["case"].as_u64().expect("case");
            let variant = w["variant"].as_str().unwrap_or("release").to_string();
            let recorded: Vec<String> = w["violations"].as_array().map(|a| a.iter().filter_map(|v| v["signature"].as_str().map(|s| s.to_string())).collect()).unwrap_or_default();
            println!("recorded: property={} tier={} seed={} case={} build={} signatures={:?}", prop, tier, seed, case, variant, recorded);
            let runs = 10;
            let mut reproduced = 0;
            let me = std::env::current_exe().unwrap();
            let exe = me.parent().unwrap().parent().unwrap().join(&variant).join("vmon");
            for k in 0..runs {
                let outfile = me.parent().unwrap().parent().unwrap().join(format!("replay-{}-{}.jsonl", std::process::id(), k));
                let _ = std::fs::remove_file(&outfile);
                let mut child = std::process::Command::new(&exe)
                    .args(["worker", prop, &tier, &seed.to_string(), &case.to_string(), "1", &(case + 1).to_string()])
                    .arg(&outfile)
                    .arg(&variant)
                    .stdout(std::process::Stdio::null())
                    .stderr(std::process::Stdio::null())
                    .spawn()
                    .expect("spawn");
                let t0 = std::time::Instant::now();
                let mut finished = false;
                while t0.elapsed().as_secs() < 900 {
                    if let Ok(Some(_)) = child.try_wait() {
                        finished = true;
                        break;
                    }
                    std::thread::sleep(std::time::Duration::from_millis(50));
                }
                if !finished {
                    let _ = child.kill();
                    let _ = child.wait();
                }
                let text = std::fs::read_to_string(&outfile).unwrap_or_default();
                let _ = std::fs::remove_file(&outfile);
                let mut sigs: Vec<String> = Vec::new();
                let mut ended = false;
                for l in text.lines() {
                    if let Ok(v) = serde_json::from_str::<serde_json::Value>(l) {
                        if v["t"] == "end" {
                            ended = true;
                            for x in v["viols"].as_array().map(|a| a.as_slice()).unwrap_or(&[]) {
                                if x["prop"].as_str() == Some(prop.as_str()) {
                                    sigs.push(x["sig"].as_str().unwrap_or("").to_string());
                                }
                            }
                        }
                    }
                }
                if !ended {
                    sigs.push(if finished { "process-died".to_string() } else { "no-return-within-15-minutes".to_string() });
                }
                sigs.sort();
                sigs.dedup();
                println!("run {}: {}", k + 1, if sigs.is_empty() { "held".to_string() } else { format!("violated {:?}", sigs) });
                if !sigs.is_empty() {
                    reproduced += 1;
                }
            }
            println!("reproduced in {} of {} re-executions (the solver is nondeterministic through hash seeds and thread scheduling)", reproduced, runs);
            if reproduced > 0 {
                println!("VIOLATION property={} replay={}", prop, args[3]);
                std::process::exit(1);
            }
            std::process::exit(0);
        }
        "solve" => {
            // vmon solve <input.json> <output.json>: one isolated solve_instance call
            let input: serde_json::Value = serde_json::from_slice(&std::fs::read(&args[2]).expect("read input")).expect("input json");
            orch::install_panic_hook();
            match orch::guard(|| server::solve_instance(input)) {
                Ok(ans) => {
                    std::fs::write(&args[3], serde_json::to_vec(&ans).unwrap()).expect("write answer");
                    std::process::exit(0);
                }
                Err(_) => std::process::exit(3),
            }
        }
        "flowcheck" => {
            // vmon flowcheck <input.json>: start solution vs independent optimum per type (debugging aid)
            let input: serde_json::Value = serde_json::from_slice(&std::fs::read(&args[2]).expect("read input")).expect("input json");
            let b = bridge::Bridge::new(&input).expect("bridge");
            let start = solver::min_cost_flow_solver::MinCostFlowSolver::initialize(b.net.clone()).solve();
            let obs = bridge::Obs::of(&b, &start);
            for t in 0..b.inst.types.len() {
                let tours: Vec<&bridge::TourObs> = obs.vehicles.values().filter(|x| x.vtype == Some(t)).collect();
                let cost: i128 = tours.iter().map(|x| b.inst.tour_costs(&x.nodes)).sum();
                let opt = refmodel::flow::optimum_for_type(&b.inst, t, &[]);
                eprintln!("type {}: start solution {} vehicles cost {}, optimum {:?}", b.inst.types[t].id, tours.len(), cost, opt);
            }
        }
        "genchain" => {
            let seed: u64 = args[2].parse().unwrap();
            let mut r = rng::Rng::new(seed);
            println!("{}", serde_json::to_string(&gen::chain_network(&mut r, &format!("g{}", seed))).unwrap());
        }
        "genline" => {
            // vmon genline <seed> <ndep> <slots 0/1> <long distance 0/1>
            let seed: u64 = args[2].parse().unwrap();
            let mut r = rng::Rng::new(seed);
            let v = gen::line_network(&mut r, &format!("g{}", seed), args[3].parse().unwrap(), args[4] == "1", args[5] == "1");
            println!("{}", serde_json::to_string(&v).unwrap());
        }
        "gen" => {
            // vmon gen <profile> <seed> <max_dep>: print one instance (debugging aid)
            let p = gen::Profile::from_name(&args[2]).expect("profile");
            let seed: u64 = args[3].parse().unwrap();
            let md: usize = args.get(4).and_then(|s| s.parse().ok()).unwrap_or(8);
            let mut r = rng::Rng::new(seed);
            let v = gen::generate(&mut r, &gen::GenOpts::new(p, md), &format!("g{}", seed));
            println!("{}", serde_json::to_string_pretty(&v).unwrap());
        }
        _ => {
            eprintln!("unknown command");
            std::process::exit(2);
        }
    }
}
