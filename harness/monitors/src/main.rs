mod bridge;
mod gen;
mod orch;
mod p_flow;
mod p_hist;
mod p_net;
mod p_solve;
mod rng;

use orch::{CaseFn, RunSpec};
use serde_json::Map;

fn case_fn_for(prop: &str) -> CaseFn {
    match prop {
        "C01" | "C02" | "C03" | "C04" | "C05" | "C06" | "C07" => p_solve::case,
        "C09" | "C10" | "C13" => p_hist::case,
        "C14" => p_flow::case,
        "C17" => p_net::case,
        _ => panic!("unknown property {}", prop),
    }
}

fn spec_for(prop: &str, tier: &str, seed: u64) -> RunSpec {
    let thorough = tier == "thorough";
    let mut s = RunSpec {
        prop: prop.to_string(),
        tier: tier.to_string(),
        seed,
        cases: if thorough { 20000 } else { 400 },
        workers: 16,
        cpu_budget_s: 30.0,
        wall_limit_s: if thorough { 3600.0 } else { 600.0 },
        variants: vec!["release".to_string()],
        crash_is_violation: false,
        level: "exploration".to_string(),
        rule: String::new(),
        min_nontrivial: 10,
        rayon_threads: vec![1, 2, 1, 4],
        extra_coverage: Map::new(),
    };
    let gen_rule = "instances drawn by the seeded generator (8 hostile profiles, unique tag per instance) plus the repository's 3 bundled inputs, each solved by the real server::solve_instance; ";
    match prop {
        "C01" => s.rule = format!("{}non-trivial = distinct instances whose answer has a vehicle with >= 2 activities (a consecutive pair was checked)", gen_rule),
        "C02" => s.rule = format!("{}non-trivial = distinct instances whose answer has a binding formation limit, a full maintenance slot or a depot filled to capacity", gen_rule),
        "C03" => s.rule = format!("{}non-trivial = distinct instances whose answer has a coupled formation (>= 2 vehicles) and at least one dead-head trip", gen_rule),
        "C04" => s.rule = format!("{}non-trivial = distinct instances whose answer has maintenance violation > 0, unserved passengers > 0 or an idle gap between two activities", gen_rule),
        "C05" => {
            s.rule = format!("{}non-trivial = distinct instances whose answer has a rotation cycle of length >= 2", gen_rule);
        }
        "C06" => {
            s.rule = format!("{}every instance is run in the release and in the checked (overflow-checks, debug-assertions) build; non-trivial = every distinct instance (a full pipeline run)", gen_rule);
            s.variants = vec!["release".to_string(), "checked".to_string()];
            s.crash_is_violation = true;
        }
        "C09" | "C10" | "C13" => {
            s.rule = "seeded random walks (30-200 operations) over the public modification API of Schedule, starting from the empty schedule, one-vehicle-per-trip and the min-cost-flow solution; after every Ok operation the full observable state is snapshotted and judged; non-trivial = distinct (instance, operation kind, argument shape) triples that returned Ok and changed the state; monitor_counters lists every covered shape cell".to_string();
            s.cases = if thorough { 20000 } else { 400 };
            s.min_nontrivial = 50;
        }
        "C14" => {
            s.rule = "instances with decoupled depot totals from the seeded generator; MinCostFlowSolver::solve() is observed through public getters and compared per vehicle type with an independent min-cost circulation (successive shortest paths, lexicographic (vehicles, cost)) over ALL connectable pairs; non-trivial = distinct instances whose start solution chains >= 2 activities in some tour".to_string();
            s.cases = if thorough { 15000 } else { 500 };
        }
        "C17" => {
            s.rule = "instances from the seeded generator (emphasis ties, non-metric, forbidden dead-heads); every public getter of the loaded Network is compared with the reference model, can_reach for ALL ordered node pairs, successors/predecessors for every node and type as sets; non-trivial = distinct instances containing >= 1 zero-slack pair and >= 1 pair with a location change".to_string();
            s.cases = if thorough { 8000 } else { 400 };
        }
        "C07" => s.rule = format!("{}non-trivial = distinct instances with a segment needing >= 2 vehicles", gen_rule),
        _ => {}
    }
    s
}

fn main() {
    let args: Vec<String> = std::env::args().collect();
    if args.len() < 2 {
        eprintln!("usage: vmon run <prop> <tier> | worker ...");
        std::process::exit(2);
    }
    match args[1].as_str() {
        "worker" => {
            let prop = args[2].clone();
            orch::worker_main(&args[2..], case_fn_for(&prop));
        }
        "run" => {
            let prop = &args[2];
            let tier = args.get(3).map(|s| s.as_str()).unwrap_or("quick");
            let seed: u64 = std::env::var("VERIF_SEED").ok().and_then(|s| s.parse().ok()).unwrap_or(1);
            let mut spec = spec_for(prop, tier, seed);
            if let Ok(c) = std::env::var("VERIF_CASES") {
                if let Ok(n) = c.parse() {
                    spec.cases = n;
                }
            }
            std::process::exit(orch::run(&spec));
        }
        "gen" => {
            // vmon gen <profile> <seed> <max_dep>: print one instance (debugging aid)
            let p = gen::Profile::from_name(&args[2]).expect("profile");
            let seed: u64 = args[3].parse().unwrap();
            let md: usize = args.get(4).and_then(|s| s.parse().ok()).unwrap_or(8);
            let mut r = rng::Rng::new(seed);
            let v = gen::generate(&mut r, &gen::GenOpts::new(p, md), &format!("g{}", seed));
            println!("{}", serde_json::to_string_pretty(&v).unwrap());
        }
        _ => {
            eprintln!("unknown command");
            std::process::exit(2);
        }
    }
}
