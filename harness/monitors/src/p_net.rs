//! C17: the loaded network faithfully encodes the instance and its reachability.

use crate::bridge::{vt, Bridge};
use crate::gen::{self, GenOpts, Profile, PROFILES};
use crate::orch::{guard, CaseOut, Ctx};
use crate::rng::{hash_str, mix, Rng};
use model::base_types::Distance;
use model::json_serialisation::load_rolling_stock_problem_instance_from_json;
use model::network::nodes::Node;
use refmodel::inst::DepotKind;
use refmodel::{time, Inst, N};
use serde_json::json;
use std::collections::BTreeSet;

pub fn case(ctx: &Ctx, idx: u64) -> CaseOut {
    let mut out = CaseOut::default();
    let mut rng = Rng::new(mix(&[ctx.seed, hash_str("net"), idx]));
    let profile = if idx % 2 == 0 {
        *rng.pick(&[Profile::Ties, Profile::NonMetric, Profile::Forbid, Profile::Ties])
    } else {
        PROFILES[(idx / 2 % PROFILES.len() as u64) as usize]
    };
    let max_dep = if ctx.thorough() { *rng.pick(&[6, 12, 25, 40]) } else { *rng.pick(&[4, 8, 12]) };
    let tag = format!("n{}c{}", ctx.seed, idx);
    let mut input = gen::generate(&mut rng, &GenOpts::new(profile, max_dep), &tag);
    if idx % 50 == 7 {
        let ndep = rng.usize(20, 90);
        let (ws, ld) = (rng.chance(1, 2), rng.chance(1, 3));
        input = gen::line_network(&mut rng, &tag, ndep, ws, ld);
        out.count("busy_line_networks", 1);
    }
    if idx % 1000 == 5 {
        let ndep = rng.usize(260, 340);
        let (ws, ld) = (rng.chance(1, 2), false);
        input = gen::line_network(&mut rng, &tag, ndep, ws, ld);
        out.count("full_day_timetables", 1);
        crate::orch::announce_cpu_budget(600.0);
    }
    let inst = Inst::parse(&input).expect("reference model cannot parse generated instance");
    out.count(&format!("profile.{}", profile.name()), 1);

    let net = match guard(|| load_rolling_stock_problem_instance_from_json(input.clone())) {
        Ok(n) => n,
        Err(p) => {
            out.viol("C17", &format!("load.{}", p.sig()), format!("loading a valid instance panicked: {} at {}", p.message, p.location));
            out.witness = Some(json!({ "input": input }));
            return out;
        }
    };
    let b = match Bridge::from_parts(inst.clone(), net.clone()) {
        Ok(b) => b,
        Err(e) => {
            out.viol("C17", "nodes.unknown_or_missing", e);
            out.witness = Some(json!({ "input": input }));
            return out;
        }
    };
    let loc_name = |l: model::base_types::Location| net.locations().get_id(l).unwrap_or_default();

    // ------------------------------------------------------------- nodes
    let service_count: usize = (0..inst.types.len()).map(|t| net.service_nodes(vt(t)).count()).sum();
    if service_count != inst.trips.len() || net.number_of_service_nodes() != inst.trips.len() {
        out.viol("C17", "nodes.service_count", format!("{} service nodes for {} departure segments", service_count, inst.trips.len()));
    }
    if net.maintenance_nodes().count() != inst.slots.len() {
        out.viol("C17", "nodes.slot_count", format!("{} maintenance nodes for {} slots", net.maintenance_nodes().count(), inst.slots.len()));
    }
    if net.maintenance_considered() != !inst.slots.is_empty() {
        out.viol("C17", "nodes.maintenance_considered", "maintenance_considered disagrees with the presence of slots".to_string());
    }
    for (i, tr) in inst.trips.iter().enumerate() {
        let idx_n = match b.idx_of.get(&N::T(i)) {
            Some(x) => *x,
            None => {
                out.viol("C17", "nodes.trip_missing", format!("no node for departure segment {}", tr.id));
                continue;
            }
        };
        let node = net.node(idx_n);
        let s = match node {
            Node::Service((_, s)) => s,
            _ => continue,
        };
        let mut bad = Vec::new();
        if s.vehicle_type() != vt(tr.vtype) || !net.service_nodes(vt(tr.vtype)).any(|x| x == idx_n) {
            bad.push("vehicle type".to_string());
        }
        if loc_name(node.start_location()) != inst.locs[tr.origin] {
            bad.push(format!("origin {} vs {}", loc_name(node.start_location()), inst.locs[tr.origin]));
        }
        if loc_name(node.end_location()) != inst.locs[tr.dest] {
            bad.push("destination".to_string());
        }
        if node.travel_distance() != Distance::from_meter(tr.dist) {
            bad.push(format!("distance {} vs {}", node.travel_distance(), tr.dist));
        }
        if time::parse(&node.start_time().as_iso()).ok() != Some(tr.dep) {
            bad.push(format!("departure {} vs {}", node.start_time().as_iso(), time::format(tr.dep)));
        }
        if time::parse(&node.end_time().as_iso()).ok() != Some(tr.arr) {
            bad.push(format!("arrival {} vs {}", node.end_time().as_iso(), time::format(tr.arr)));
        }
        if s.passengers() as u64 != tr.passengers {
            bad.push(format!("passengers {} vs {} (raw {})", s.passengers(), tr.passengers, tr.passengers_raw));
        }
        if s.seated() as u64 != tr.seated {
            bad.push("seated".to_string());
        }
        if s.maximal_formation_count().map(|x| x as u64) != tr.seg_limit {
            bad.push("segment formation limit".to_string());
        }
        if !bad.is_empty() {
            out.viol("C17", "nodes.trip_fields", format!("{}: {}", tr.id, bad.join("; ")));
        }
        let lim = net.maximal_formation_count_for(idx_n).map(|x| x as u64);
        if lim != inst.limit(i) {
            let shape = match (inst.types[tr.vtype].limit, tr.seg_limit) {
                (Some(_), Some(_)) => "both",
                (Some(_), None) => "type_only",
                (None, Some(_)) => "segment_only",
                _ => "none",
            };
            out.viol(
                "C17",
                &format!("nodes.formation_limit.{}", shape),
                format!("{}: combined limit {:?}, expected {:?} (type {:?}, segment {:?})", tr.id, lim, inst.limit(i), inst.types[tr.vtype].limit, tr.seg_limit),
            );
        }
        let need = net.number_of_vehicles_required_to_serve(vt(tr.vtype), idx_n) as u64;
        if need != inst.need(i) {
            out.viol("C17", "nodes.required_vehicles", format!("{}: {} vs {}", tr.id, need, inst.need(i)));
        }
    }
    for (t, ty) in inst.types.iter().enumerate() {
        match net.vehicle_types().get(vt(t)) {
            Some(x) => {
                if x.id() != &ty.id
                    || x.capacity() as u64 != ty.capacity
                    || x.seats() as u64 != ty.seats
                    || x.maximal_formation_count().map(|l| l as u64) != ty.limit
                {
                    out.viol("C17", "types.fields", format!("type {} loaded with wrong fields", ty.id));
                }
            }
            None => out.viol("C17", "types.missing", format!("type {} missing", ty.id)),
        }
    }
    for (i, sl) in inst.slots.iter().enumerate() {
        let idx_n = match b.idx_of.get(&N::S(i)) {
            Some(x) => *x,
            None => {
                out.viol("C17", "nodes.slot_missing", format!("no node for slot {}", sl.id));
                continue;
            }
        };
        let node = net.node(idx_n);
        if loc_name(node.start_location()) != inst.locs[sl.loc]
            || loc_name(node.end_location()) != inst.locs[sl.loc]
            || time::parse(&node.start_time().as_iso()).ok() != Some(sl.start)
            || time::parse(&node.end_time().as_iso()).ok() != Some(sl.end)
            || net.track_count_of_maintenance_slot(idx_n) as u64 != sl.tracks
        {
            out.viol("C17", "nodes.slot_fields", format!("slot {} loaded with wrong fields", sl.id));
        }
    }

    // ------------------------------------------------------------- depots
    // what the start circulation can need at most
    let need_of_type: Vec<u64> = (0..inst.types.len())
        .map(|t| {
            (0..inst.trips.len())
                .filter(|&i| inst.trips[i].vtype == t)
                .map(|i| match inst.limit(i) {
                    Some(l) => inst.need(i).min(l),
                    None => inst.need(i),
                })
                .sum::<u64>()
        })
        .collect();
    let tracks: u64 = inst.slots.iter().map(|s| s.tracks).sum();
    if net.depots_iter().count() != inst.depots.len() {
        out.viol("C17", "depots.count", format!("{} depots loaded, {} expected (incl. overflow)", net.depots_iter().count(), inst.depots.len()));
    }
    for (d, dep) in inst.depots.iter().enumerate() {
        let di = b.depot_idx[d];
        if di.0 == u16::MAX {
            out.viol("C17", "depots.missing", format!("depot {} missing", dep.id));
            continue;
        }
        let sd = net.get_start_depot_node(di);
        let ed = net.get_end_depot_node(di);
        if !net.node(sd).is_start_depot() || !net.node(ed).is_end_depot() {
            out.viol("C17", "depots.node_kinds", format!("depot {} start/end nodes have wrong kinds", dep.id));
        }
        let lname = loc_name(net.node(sd).start_location());
        if lname != inst.loc_name(dep.loc) || loc_name(net.node(ed).start_location()) != inst.loc_name(dep.loc) {
            out.viol("C17", "depots.location", format!("depot {} at {} instead of {}", dep.id, lname, inst.loc_name(dep.loc)));
        }
        match dep.kind {
            DepotKind::Given => {
                if Some(net.total_capacity_of(di) as u64) != dep.capacity {
                    out.viol("C17", "depots.total_capacity", format!("depot {}: {} vs {:?}", dep.id, net.total_capacity_of(di), dep.capacity));
                }
                for t in 0..inst.types.len() {
                    if Some(net.capacity_of(di, vt(t)) as u64) != dep.cap_for(t) {
                        out.viol(
                            "C17",
                            "depots.type_capacity",
                            format!("depot {} type {}: {} vs {:?}", dep.id, inst.types[t].id, net.capacity_of(di, vt(t)), dep.cap_for(t)),
                        );
                    }
                }
            }
            DepotKind::Default | DepotKind::Overflow => {
                let which = if dep.kind == DepotKind::Default { "default" } else { "overflow" };
                let total_need: u64 = need_of_type.iter().sum::<u64>() + tracks;
                if (net.total_capacity_of(di) as u64) < total_need {
                    out.viol(
                        "C17",
                        &format!("depots.{}_not_unlimited", which),
                        format!(
                            "depot {} has total capacity {} but the instance can need {} vehicles (sum of min(need, limit) over segments + tracks)",
                            dep.id,
                            net.total_capacity_of(di),
                            total_need
                        ),
                    );
                }
                for t in 0..inst.types.len() {
                    if (net.capacity_of(di, vt(t)) as u64) < need_of_type[t] + tracks {
                        out.viol(
                            "C17",
                            &format!("depots.{}_not_unlimited", which),
                            format!(
                                "depot {} can host {} vehicles of type {} but the instance can need {}",
                                dep.id,
                                net.capacity_of(di, vt(t)),
                                inst.types[t].id,
                                need_of_type[t] + tracks
                            ),
                        );
                    }
                }
            }
        }
    }
    let (od, os, oe) = net.overflow_depot_idxs();
    if b.depot_of.get(&od) != Some(&inst.overflow()) || b.node_of.get(&os) != Some(&N::SD(inst.overflow())) || b.node_of.get(&oe) != Some(&N::ED(inst.overflow())) {
        out.viol("C17", "depots.overflow_idxs", "overflow_depot_idxs do not name the overflow depot".to_string());
    }

    // ------------------------------------------------------------- config and matrices
    let cfg = net.config();
    if cfg.forbid_dead_head_trip != inst.forbid
        || cfg.shunting.minimal.in_sec().ok() != Some(inst.shunt_min as u64)
        || cfg.shunting.dead_head_trip.in_sec().ok() != Some(inst.shunt_dh as u64)
        || cfg.maintenance.maximal_distance != Distance::from_meter(inst.max_dist as u64)
        || cfg.costs.staff != inst.costs.staff
        || cfg.costs.service_trip != inst.costs.service
        || cfg.costs.maintenance != inst.costs.maintenance
        || cfg.costs.dead_head_trip != inst.costs.dead_head
        || cfg.costs.idle != inst.costs.idle
    {
        out.viol("C17", "config.fields", "configuration loaded with wrong values".to_string());
    }
    if net.planning_days().in_sec().ok() != Some(inst.horizon as u64) {
        out.viol("C17", "config.planning_days", format!("{:?} vs {}", net.planning_days().in_sec(), inst.horizon));
    }
    for a in 0..inst.locs.len() {
        for c in 0..inst.locs.len() {
            let la = model::base_types::Location::of(model::base_types::LocationIdx::from(a as u16));
            let lc = model::base_types::Location::of(model::base_types::LocationIdx::from(c as u16));
            let tt = net.locations().travel_time(la, lc).in_sec().ok().map(|x| x as i64);
            let dd = match net.locations().distance(la, lc) {
                Distance::Distance(m) => Some(m as i64),
                Distance::Infinity => None,
            };
            if a != c && (tt != Some(inst.dh_dur[a][c]) || dd != Some(inst.dh_dist[a][c])) {
                out.viol(
                    "C17",
                    "locations.dead_head_matrix",
                    format!("{}->{}: ({:?}, {:?}) vs ({}, {})", inst.locs[a], inst.locs[c], tt, dd, inst.dh_dur[a][c], inst.dh_dist[a][c]),
                );
            }
        }
    }

    // ------------------------------------------------------------- reachability
    let all: Vec<N> = {
        let mut v: Vec<N> = b.idx_of.keys().copied().collect();
        v.sort();
        v
    };
    let mut pairs = 0u64;
    let mut ties = 0u64;
    let mut loc_changes = 0u64;
    let mut forbid_decided = 0u64;
    for &x in &all {
        for &y in &all {
            pairs += 1;
            let real = net.can_reach(b.idx(x), b.idx(y));
            let model = inst.connectable(x, y);
            if x.is_activity() && y.is_activity() {
                if inst.slack(x, y) == Some(0) {
                    ties += 1;
                }
                if inst.end_loc(x) != inst.start_loc(y) {
                    loc_changes += 1;
                    if inst.forbid {
                        forbid_decided += 1;
                    }
                }
            }
            if real != model {
                let kind = if inst.slack(x, y) == Some(0) { "tie" } else { "other" };
                out.viol(
                    "C17",
                    &format!("can_reach.disagrees.{}", kind),
                    format!("can_reach({}, {}) = {} but the timing rule says {} (slack {:?})", inst.node_id(x), inst.node_id(y), real, model, inst.slack(x, y)),
                );
            }
        }
    }
    let mut enumerations = 0u64;
    for t in 0..inst.types.len() {
        let universe: Vec<N> = all
            .iter()
            .copied()
            .filter(|n| match n {
                N::T(i) => inst.trips[*i].vtype == t,
                _ => true,
            })
            .collect();
        for &x in &all {
            let succ_real: BTreeSet<N> = net.successors(vt(t), b.idx(x)).map(|i| b.n(i)).collect();
            let succ_model: BTreeSet<N> = universe.iter().copied().filter(|&y| inst.connectable(x, y)).collect();
            enumerations += 1;
            if succ_real != succ_model {
                let missing: Vec<String> = succ_model.difference(&succ_real).map(|n| inst.node_id(*n)).collect();
                let extra: Vec<String> = succ_real.difference(&succ_model).map(|n| inst.node_id(*n)).collect();
                let tie = succ_model.symmetric_difference(&succ_real).all(|y| inst.slack(x, *y) == Some(0));
                out.viol(
                    "C17",
                    if tie { "successors.disagree.tie" } else { "successors.disagree.other" },
                    format!("successors({}, {}): missing {:?}, extra {:?}", inst.types[t].id, inst.node_id(x), missing, extra),
                );
            }
            let pred_real: BTreeSet<N> = net.predecessors(vt(t), b.idx(x)).map(|i| b.n(i)).collect();
            let pred_model: BTreeSet<N> = universe.iter().copied().filter(|&y| inst.connectable(y, x)).collect();
            enumerations += 1;
            if pred_real != pred_model {
                let missing: Vec<String> = pred_model.difference(&pred_real).map(|n| inst.node_id(*n)).collect();
                let extra: Vec<String> = pred_real.difference(&pred_model).map(|n| inst.node_id(*n)).collect();
                let tie = pred_model.symmetric_difference(&pred_real).all(|y| inst.slack(*y, x) == Some(0));
                out.viol(
                    "C17",
                    if tie { "predecessors.disagree.tie" } else { "predecessors.disagree.other" },
                    format!("predecessors({}, {}): missing {:?}, extra {:?}", inst.types[t].id, inst.node_id(x), missing, extra),
                );
            }
        }
    }
    out.count("ordered_pairs_compared", pairs);
    out.count("zero_slack_pairs", ties);
    out.count("pairs_with_location_change", loc_changes);
    out.count("pairs_where_forbid_decides", forbid_decided);
    out.count("successor_predecessor_enumerations", enumerations);
    out.count("nodes", all.len() as u64);
    out.count("default_depot_instances", (!inst.depots_given) as u64);
    if ties > 0 && loc_changes > 0 {
        out.nontrivial.push(tag.clone());
    }
    if !out.viols.is_empty() {
        out.witness = Some(json!({ "input": input }));
    }
    if idx % 53 == 1 {
        out.sample = Some(json!({"instance_tag": tag, "profile": profile.name(), "nodes": all.len(), "ordered_pairs": pairs, "zero_slack_pairs": ties, "forbid": inst.forbid}));
    }
    out
}
