//! Orchestrator: runs every workload in watched worker child processes, aggregates
//! case records, applies the known-findings list, writes the evidence file and decides
//! the three-valued verdict (exit 0 held / 1 violation / 2 inconclusive).

use serde_json::{json, Map, Value};
use std::collections::{BTreeMap, BTreeSet};
use std::fs;
use std::io::{Read, Seek, SeekFrom, Write};
use std::panic;
use std::path::{Path, PathBuf};
use std::process::{Child, Command, Stdio};
use std::sync::Mutex;
use std::time::{Duration, Instant};

/// root of the verification tree (the directory that holds `check`, `evidence/`, `replays/`):
/// derived from the executable's location <root>/harness/target/<profile>/vmon
pub fn verif_dir() -> String {
    std::env::current_exe()
        .ok()
        .and_then(|e| e.parent()?.parent()?.parent()?.parent().map(|p| p.to_string_lossy().to_string()))
        .unwrap_or_else(|| "/verif".to_string())
}

// ------------------------------------------------------------------------------------
// panic capture (worker side)

static LAST_PANIC: Mutex<Option<PanicInfo>> = Mutex::new(None);
static WORKER_OUT: Mutex<Option<(fs::File, u64)>> = Mutex::new(None);

/// called by a case function once it knows how big its case is: raises the CPU budget of
/// the current case (the parent reads the record from the worker's log)
pub fn announce_cpu_budget(cpu_s: f64) {
    let mut g = WORKER_OUT.lock().unwrap_or_else(|e| e.into_inner());
    if let Some((f, case)) = g.as_mut() {
        let _ = writeln!(f, "{}", json!({"t": "budget", "case": *case, "cpu_s": cpu_s}));
        let _ = f.flush();
    }
}

#[derive(Clone, Debug)]
pub struct PanicInfo {
    pub message: String,
    pub location: String,
}

impl PanicInfo {
    /// "panic@<file relative to /repo>:<line>"
    pub fn sig(&self) -> String {
        let loc = self.location.trim_start_matches("/repo/");
        // drop the column
        let parts: Vec<&str> = loc.split(':').collect();
        let short = if parts.len() >= 2 {
            format!("{}:{}", shorten_registry(parts[0]), parts[1])
        } else {
            loc.to_string()
        };
        format!("panic@{}", short)
    }
}

fn shorten_registry(p: &str) -> String {
    match p.find("/registry/src/") {
        Some(i) => {
            let rest = &p[i + "/registry/src/".len()..];
            match rest.find('/') {
                Some(k) => rest[k + 1..].to_string(),
                None => rest.to_string(),
            }
        }
        None => p.to_string(),
    }
}

pub fn install_panic_hook() {
    panic::set_hook(Box::new(|info| {
        let message = if let Some(s) = info.payload().downcast_ref::<&str>() {
            s.to_string()
        } else if let Some(s) = info.payload().downcast_ref::<String>() {
            s.clone()
        } else {
            "<non-string panic>".to_string()
        };
        let location = info
            .location()
            .map(|l| format!("{}:{}:{}", l.file(), l.line(), l.column()))
            .unwrap_or_default();
        let mut g = LAST_PANIC.lock().unwrap_or_else(|e| e.into_inner());
        // keep the first panic of a guarded region (later ones are usually consequences)
        if g.is_none() {
            *g = Some(PanicInfo { message, location });
        }
    }));
}

/// run code under test; a panic is returned as a value
pub fn guard<T>(f: impl FnOnce() -> T) -> Result<T, PanicInfo> {
    {
        let mut g = LAST_PANIC.lock().unwrap_or_else(|e| e.into_inner());
        *g = None;
    }
    let r = panic::catch_unwind(panic::AssertUnwindSafe(f));
    match r {
        Ok(v) => Ok(v),
        Err(_) => {
            let mut g = LAST_PANIC.lock().unwrap_or_else(|e| e.into_inner());
            Err(g.take().unwrap_or(PanicInfo {
                message: "<unknown panic>".into(),
                location: String::new(),
            }))
        }
    }
}

// ------------------------------------------------------------------------------------
// case records

#[derive(Clone, Debug)]
pub struct Viol {
    pub prop: String,
    pub sig: String,
    pub detail: String,
}

#[derive(Clone, Debug, Default)]
pub struct CaseOut {
    /// verdict-bearing findings (for any property; the parent filters by property)
    pub viols: Vec<Viol>,
    /// reasons why the case could not be judged (for the property being checked)
    pub inconclusive: Vec<String>,
    /// keys that make the case non-trivial (distinct keys are counted)
    pub nontrivial: Vec<String>,
    /// number of further distinct non-trivial items of this case that are distinct from all
    /// other cases by construction (counted, not listed, to keep the records small)
    pub nontrivial_extra: u64,
    pub counters: BTreeMap<String, u64>,
    pub sample: Option<Value>,
    /// witness material written to the replay file when the case violates
    pub witness: Option<Value>,
}

impl CaseOut {
    pub fn count(&mut self, k: &str, n: u64) {
        *self.counters.entry(k.to_string()).or_default() += n;
    }
    pub fn viol(&mut self, prop: &str, sig: &str, detail: String) {
        self.viols.push(Viol {
            prop: prop.to_string(),
            sig: sig.to_string(),
            detail,
        });
    }
    pub fn add_findings(&mut self, f: &[refmodel::Finding]) {
        for x in f {
            self.viol(x.prop, &x.clause, x.detail.clone());
        }
    }
}

#[derive(Clone, Debug)]
pub struct Ctx {
    pub prop: String,
    pub tier: String,
    pub seed: u64,
    /// "release" or "checked"
    pub variant: String,
}

impl Ctx {
    pub fn thorough(&self) -> bool {
        self.tier == "thorough"
    }
}

pub type CaseFn = fn(&Ctx, u64) -> CaseOut;

// ------------------------------------------------------------------------------------
// worker

pub fn worker_main(args: &[String], case_fn: CaseFn) {
    // args: prop tier seed first step end outfile variant
    let ctx = Ctx {
        prop: args[0].clone(),
        tier: args[1].clone(),
        seed: args[2].parse().unwrap(),
        variant: args[7].clone(),
    };
    let first: u64 = args[3].parse().unwrap();
    let step: u64 = args[4].parse().unwrap();
    let end: u64 = args[5].parse().unwrap();
    let mut out = fs::OpenOptions::new()
        .create(true)
        .append(true)
        .open(&args[6])
        .expect("open worker outfile");
    install_panic_hook();
    let mut idx = first;
    while idx < end {
        writeln!(out, "{}", json!({"t": "begin", "case": idx})).unwrap();
        out.flush().unwrap();
        {
            let mut g = WORKER_OUT.lock().unwrap_or_else(|e| e.into_inner());
            *g = Some((out.try_clone().expect("clone outfile"), idx));
        }
        let t0 = Instant::now();
        let res = guard(|| case_fn(&ctx, idx));
        let ms = t0.elapsed().as_millis() as u64;
        let rec = match res {
            Ok(c) => {
                // write witness for violating cases of the checked property
                let mut replay = Value::Null;
                if c.viols.iter().any(|v| v.prop == ctx.prop) {
                    let dir = format!("{}/replays/{}", verif_dir(), ctx.prop);
                    let _ = fs::create_dir_all(&dir);
                    let path = format!("{}/{}-{}-{}-{}.json", dir, ctx.tier, ctx.seed, ctx.variant, idx);
                    let w = json!({
                        "property": ctx.prop, "tier": ctx.tier, "seed": ctx.seed, "variant": ctx.variant, "case": idx,
                        "violations": c.viols.iter().filter(|v| v.prop == ctx.prop).map(|v| json!({"signature": v.sig, "detail": v.detail})).collect::<Vec<_>>(),
                        "witness": c.witness,
                    });
                    if fs::write(&path, serde_json::to_string_pretty(&w).unwrap()).is_ok() {
                        replay = json!(path);
                    }
                }
                json!({
                    "t": "end", "case": idx, "ms": ms,
                    "viols": c.viols.iter().map(|v| json!({"prop": v.prop, "sig": v.sig, "detail": v.detail})).collect::<Vec<_>>(),
                    "inconclusive": c.inconclusive,
                    "nontrivial": c.nontrivial,
                    "nontrivial_extra": c.nontrivial_extra,
                    "counters": c.counters,
                    "sample": c.sample,
                    "replay": replay,
                })
            }
            Err(p) => json!({
                "t": "end", "case": idx, "ms": ms,
                "harness_panic": format!("{} at {}", p.message, p.location),
            }),
        };
        writeln!(out, "{}", rec).unwrap();
        out.flush().unwrap();
        idx += step;
    }
    writeln!(out, "{}", json!({"t": "done"})).unwrap();
}

// ------------------------------------------------------------------------------------
// parent

pub struct RunSpec {
    pub prop: String,
    pub tier: String,
    pub seed: u64,
    pub cases: u64,
    pub workers: usize,
    /// CPU seconds a single case may consume before it is declared hanging
    pub cpu_budget_s: f64,
    /// wall clock limit for the whole run (inconclusive when hit)
    pub wall_limit_s: f64,
    /// which build variants to run ("release", "checked")
    pub variants: Vec<String>,
    /// does a crash / hang of the code under test violate this property?
    pub crash_is_violation: bool,
    pub level: String,
    pub rule: String,
    pub min_nontrivial: u64,
    pub rayon_threads: Vec<usize>,
    pub extra_coverage: Map<String, Value>,
    /// per build variant: run only the first n cases (sanitizer builds are slow)
    pub variant_case_limit: BTreeMap<String, u64>,
}

struct W {
    child: Child,
    outfile: PathBuf,
    offset: u64,
    buf: String,
    variant: String,
    step: u64,
    end: u64,
    current: Option<(u64, f64, Instant)>, // case, cpu at begin, wall at begin
    budget: f64,
    last_case_done: Option<u64>,
    first: u64,
    done: bool,
    threads: usize,
}

fn cpu_seconds(pid: u32) -> Option<f64> {
    let s = fs::read_to_string(format!("/proc/{}/stat", pid)).ok()?;
    let rp = s.rfind(')')?;
    let fields: Vec<&str> = s[rp + 2..].split_whitespace().collect();
    let ut: f64 = fields.get(11)?.parse().ok()?;
    let st: f64 = fields.get(12)?.parse().ok()?;
    Some((ut + st) / 100.0)
}

fn exe_for(variant: &str) -> PathBuf {
    let me = std::env::current_exe().unwrap();
    // .../target/<profile>/vmon
    let target = me.parent().unwrap().parent().unwrap();
    if variant == "tsan" {
        // built by ./check with -Zsanitizer=thread -Zbuild-std into harness/target-tsan
        return target.parent().unwrap().join("target-tsan/x86_64-unknown-linux-gnu/release/vmon");
    }
    target.join(variant).join("vmon")
}

fn spawn(spec: &RunSpec, variant: &str, first: u64, step: u64, end: u64, outfile: &Path, threads: usize) -> Child {
    let errfile = fs::OpenOptions::new()
        .create(true)
        .append(true)
        .open(outfile.with_extension("stderr"))
        .unwrap();
    Command::new(exe_for(variant))
        .arg("worker")
        .arg(&spec.prop)
        .arg(&spec.tier)
        .arg(spec.seed.to_string())
        .arg(first.to_string())
        .arg(step.to_string())
        .arg(end.to_string())
        .arg(outfile)
        .arg(variant)
        .env("RAYON_NUM_THREADS", threads.to_string())
        .env("RUST_BACKTRACE", "0")
        .env(
            "TSAN_OPTIONS",
            format!("halt_on_error=0 exitcode=0 second_deadlock_stack=1 log_path={}", outfile.with_extension("tsan").display()),
        )
        .stdin(Stdio::null())
        .stdout(Stdio::null())
        .stderr(Stdio::from(errfile))
        .spawn()
        .expect("spawn worker")
}

fn gdb_backtrace(pid: u32) -> String {
    let out = Command::new("timeout")
        .args(["20", "gdb", "-p", &pid.to_string(), "-batch", "-ex", "thread apply all bt 12"])
        .stdin(Stdio::null())
        .stderr(Stdio::null())
        .output();
    match out {
        Ok(o) => {
            let s = String::from_utf8_lossy(&o.stdout).to_string();
            // keep only frame lines that mention the repository or the solver crates
            s.lines()
                .filter(|l| l.trim_start().starts_with('#'))
                .filter(|l| l.contains("solver::") || l.contains("solution::") || l.contains("model::") || l.contains("server::") || l.contains("rapid_solve"))
                .take(40)
                .collect::<Vec<_>>()
                .join("\n")
        }
        Err(_) => String::new(),
    }
}

/// innermost repository function named in a gdb backtrace, normalised (closures,
/// impl numbers and generic arguments stripped) so that the signature is stable
fn spin_site(bt: &str) -> String {
    for l in bt.lines() {
        let f = match l.find(" in ") {
            Some(i) => &l[i + 4..],
            None => match l.split_whitespace().nth(1) {
                Some(x) => &l[l.find(x).unwrap()..],
                None => continue,
            },
        };
        let f = f.split(" (").next().unwrap_or(f).trim();
        if !["solver::", "solution::", "model::", "server::"].iter().any(|k| f.starts_with(k)) {
            continue;
        }
        let mut parts: Vec<&str> = Vec::new();
        for p in f.split("::") {
            if p.starts_with("{closure") {
                break;
            }
            if p.starts_with("{impl") {
                continue;
            }
            parts.push(p.split('<').next().unwrap_or(p));
        }
        return parts.join("::");
    }
    "unknown".to_string()
}

#[derive(Default)]
pub struct Agg {
    pub evaluations: u64,
    pub nontrivial: BTreeSet<String>,
    pub nontrivial_extra: u64,
    pub counters: BTreeMap<String, u64>,
    pub samples: Vec<Value>,
    /// (sig) -> (count, first detail, first replay)
    pub viols: BTreeMap<String, (u64, String, String)>,
    pub other_prop_viols: BTreeMap<String, u64>,
    pub inconclusive: BTreeMap<String, u64>,
    pub harness_errors: Vec<String>,
    pub max_case_ms: u64,
}

pub struct Known {
    pub open: Vec<(String, String, String)>, // prop, signature, text
}

pub fn load_known() -> Known {
    let mut open = Vec::new();
    if let Ok(s) = fs::read_to_string(format!("{}/KNOWN_FINDINGS.txt", verif_dir())) {
        for line in s.lines() {
            let line = line.trim();
            if let Some(rest) = line.strip_prefix("open:") {
                let rest = rest.trim();
                let mut prop = String::new();
                let mut sig = String::new();
                for tok in rest.split_whitespace() {
                    if let Some(p) = tok.strip_prefix("property=") {
                        prop = p.to_string();
                    } else if let Some(p) = tok.strip_prefix("signature=") {
                        sig = p.to_string();
                    }
                }
                if !prop.is_empty() && !sig.is_empty() {
                    open.push((prop, sig, rest.to_string()));
                }
            }
        }
    }
    Known { open }
}

pub fn run(spec: &RunSpec) -> i32 {
    let t0 = Instant::now();
    let me = std::env::current_exe().unwrap();
    let target = me.parent().unwrap().parent().unwrap().to_path_buf();
    let run_dir = target.join(format!("run-{}-{}", spec.prop, std::process::id()));
    // run directories of earlier runs of this property (kept after violations) are removed
    if let Ok(rd) = fs::read_dir(&target) {
        for e in rd.flatten() {
            if e.file_name().to_string_lossy().starts_with(&format!("run-{}-", spec.prop)) {
                let _ = fs::remove_dir_all(e.path());
            }
        }
    }
    fs::create_dir_all(&run_dir).unwrap();
    // stale witnesses of earlier runs of this property/tier are removed
    let replay_dir = PathBuf::from(format!("{}/replays/{}", verif_dir(), spec.prop));
    if let Ok(rd) = fs::read_dir(&replay_dir) {
        for e in rd.flatten() {
            if e.file_name().to_string_lossy().starts_with(&format!("{}-", spec.tier)) {
                let _ = fs::remove_file(e.path());
            }
        }
    }

    let mut agg = Agg::default();
    let mut workers: Vec<W> = Vec::new();
    let per_variant = (spec.workers / spec.variants.len()).max(1);
    for variant in &spec.variants {
        let n = per_variant.min(spec.cases.max(1) as usize);
        for k in 0..n {
            let outfile = run_dir.join(format!("w-{}-{}.jsonl", variant, k));
            let threads = spec.rayon_threads[k % spec.rayon_threads.len()];
            let end = spec.variant_case_limit.get(variant).copied().unwrap_or(spec.cases).min(spec.cases);
            let child = spawn(spec, variant, k as u64, n as u64, end, &outfile, threads);
            workers.push(W {
                child,
                outfile,
                offset: 0,
                buf: String::new(),
                variant: variant.clone(),
                step: n as u64,
                end,
                current: None,
                budget: spec.cpu_budget_s,
                last_case_done: None,
                first: k as u64,
                done: false,
                threads,
            });
        }
    }

    let mut wall_exceeded = false;
    loop {
        let mut all_done = true;
        for w in workers.iter_mut() {
            if w.done {
                continue;
            }
            all_done = false;
            // read new lines
            if let Ok(mut fh) = fs::File::open(&w.outfile) {
                if fh.seek(SeekFrom::Start(w.offset)).is_ok() {
                    let mut chunk = String::new();
                    if let Ok(n) = fh.read_to_string(&mut chunk) {
                        w.offset += n as u64;
                        w.buf.push_str(&chunk);
                    }
                }
            }
            while let Some(pos) = w.buf.find('\n') {
                let line: String = w.buf.drain(..=pos).collect();
                let v: Value = match serde_json::from_str(line.trim()) {
                    Ok(v) => v,
                    Err(_) => continue,
                };
                match v["t"].as_str() {
                    Some("begin") => {
                        let cpu = cpu_seconds(w.child.id()).unwrap_or(0.0);
                        w.current = Some((v["case"].as_u64().unwrap(), cpu, Instant::now()));
                        w.budget = spec.cpu_budget_s;
                    }
                    Some("budget") => {
                        w.budget = v["cpu_s"].as_f64().unwrap_or(spec.cpu_budget_s).max(spec.cpu_budget_s);
                    }
                    Some("end") => {
                        w.current = None;
                        w.last_case_done = v["case"].as_u64();
                        absorb(spec, &mut agg, &v, &w.variant);
                    }
                    Some("done") => {}
                    _ => {}
                }
            }
            // exited?
            let exit_status = match w.child.try_wait() {
                Ok(Some(st)) => Some(st),
                _ => None,
            };
            let exited = exit_status.is_some();
            if exited {
                // drain the rest of the file once more on the next loop iteration
                let len = fs::metadata(&w.outfile).map(|m| m.len()).unwrap_or(0);
                if len > w.offset {
                    continue;
                }
                if let Some((case, _, _)) = w.current.take() {
                    // died inside a case: abort, stack overflow, OOM ...
                    let stderr = fs::read_to_string(w.outfile.with_extension("stderr")).unwrap_or_default();
                    let tail: String = stderr.lines().rev().take(6).collect::<Vec<_>>().into_iter().rev().collect::<Vec<_>>().join(" | ");
                    let killed_from_outside = {
                        use std::os::unix::process::ExitStatusExt;
                        exit_status.and_then(|st| st.signal()) == Some(9)
                    };
                    if killed_from_outside {
                        // SIGKILL that this orchestrator did not send: the kernel's out-of-memory
                        // killer (sanitizer builds of big cases) or an operator. Says nothing about
                        // the code under test.
                        agg.evaluations += 1;
                        *agg.inconclusive.entry(format!("worker process ({} build) was killed from outside during a case (SIGKILL, e.g. out-of-memory killer)", w.variant)).or_default() += 1;
                    } else {
                        record_crash(spec, &mut agg, case, &w.variant, "process-died", &tail, &run_dir);
                    }
                    let next = case + w.step;
                    if next < w.end {
                        w.child = spawn(spec, &w.variant, next, w.step, w.end, &w.outfile, w.threads);
                        continue;
                    }
                    w.done = true;
                } else {
                    let next = match w.last_case_done {
                        Some(c) => c + w.step,
                        None => w.first,
                    };
                    if next < w.end && w.last_case_done.is_none() && w.offset == 0 {
                        // died before the first case: harness problem
                        agg.harness_errors.push(format!("worker {} exited before its first case", w.outfile.display()));
                    }
                    w.done = true;
                }
                continue;
            }
            // CPU budget
            if let Some((case, cpu0, wall0)) = w.current {
                let cpu = cpu_seconds(w.child.id()).unwrap_or(cpu0);
                let factor = if w.variant == "tsan" { 20.0 } else { 1.0 }; // sanitizer builds are slow
                if cpu - cpu0 > w.budget * factor {
                    let bt1 = gdb_backtrace(w.child.id());
                    std::thread::sleep(Duration::from_millis(1500));
                    let bt2 = gdb_backtrace(w.child.id());
                    // the case may have finished while we were looking: then it was only slow
                    let finished = fs::read_to_string(&w.outfile)
                        .map(|all| {
                            all.lines().any(|l| {
                                serde_json::from_str::<Value>(l)
                                    .map(|v| v["t"] == "end" && v["case"].as_u64() == Some(case))
                                    .unwrap_or(false)
                            })
                        })
                        .unwrap_or(false);
                    if finished {
                        continue;
                    }
                    let _ = w.child.kill();
                    let _ = w.child.wait();
                    let site = spin_site(&bt2);
                    let same = spin_site(&bt1) == site;
                    record_crash(
                        spec,
                        &mut agg,
                        case,
                        &w.variant,
                        &format!("no-return-within-cpu-budget@{}", site),
                        &format!(
                            "consumed {:.1} CPU-s (budget {}), wall {:.1}s; same spin site in both samples: {}\n--- backtrace 1\n{}\n--- backtrace 2\n{}",
                            cpu - cpu0,
                            w.budget,
                            wall0.elapsed().as_secs_f64(),
                            same,
                            bt1,
                            bt2
                        ),
                        &run_dir,
                    );
                    w.current = None;
                    let next = case + w.step;
                    if next < w.end {
                        w.child = spawn(spec, &w.variant, next, w.step, w.end, &w.outfile, w.threads);
                    } else {
                        w.done = true;
                    }
                }
            }
        }
        if all_done {
            break;
        }
        if t0.elapsed().as_secs_f64() > spec.wall_limit_s {
            wall_exceeded = true;
            for w in workers.iter_mut() {
                let _ = w.child.kill();
                let _ = w.child.wait();
            }
            break;
        }
        std::thread::sleep(Duration::from_millis(15));
    }

    finish(spec, agg, t0, wall_exceeded, &run_dir)
}

fn record_crash(spec: &RunSpec, agg: &mut Agg, case: u64, variant: &str, what: &str, detail: &str, _run_dir: &Path) {
    agg.evaluations += 1;
    if spec.crash_is_violation {
        let sig = what.to_string();
        let dir = format!("{}/replays/{}", verif_dir(), spec.prop);
        let _ = fs::create_dir_all(&dir);
        let path = format!("{}/{}-{}-{}-{}.json", dir, spec.tier, spec.seed, variant, case);
        let w = json!({
            "property": spec.prop, "tier": spec.tier, "seed": spec.seed, "variant": variant, "case": case,
            "violations": [{"signature": sig, "detail": detail}],
            "witness": "re-generate the case from (property, tier, seed, case); the process did not survive it",
        });
        let _ = fs::write(&path, serde_json::to_string_pretty(&w).unwrap());
        let e = agg.viols.entry(sig).or_insert((0, detail.to_string(), path));
        e.0 += 1;
    } else {
        *agg.inconclusive.entry(format!("code under test did not survive the case ({})", what.split('@').next().unwrap_or(what))).or_default() += 1;
    }
}

fn absorb(spec: &RunSpec, agg: &mut Agg, v: &Value, _variant: &str) {
    agg.evaluations += 1;
    if let Some(h) = v.get("harness_panic").and_then(|x| x.as_str()) {
        agg.harness_errors.push(format!("case {}: {}", v["case"], h));
        return;
    }
    agg.max_case_ms = agg.max_case_ms.max(v["ms"].as_u64().unwrap_or(0));
    for x in v["viols"].as_array().map(|a| a.as_slice()).unwrap_or(&[]) {
        let prop = x["prop"].as_str().unwrap_or("");
        let sig = x["sig"].as_str().unwrap_or("").to_string();
        if prop == spec.prop {
            let e = agg.viols.entry(sig).or_insert((
                0,
                x["detail"].as_str().unwrap_or("").to_string(),
                v["replay"].as_str().unwrap_or("").to_string(),
            ));
            e.0 += 1;
        } else {
            *agg.other_prop_viols.entry(format!("{}:{}", prop, sig)).or_default() += 1;
        }
    }
    for x in v["inconclusive"].as_array().map(|a| a.as_slice()).unwrap_or(&[]) {
        *agg.inconclusive.entry(x.as_str().unwrap_or("").to_string()).or_default() += 1;
    }
    for x in v["nontrivial"].as_array().map(|a| a.as_slice()).unwrap_or(&[]) {
        agg.nontrivial.insert(x.as_str().unwrap_or("").to_string());
    }
    agg.nontrivial_extra += v["nontrivial_extra"].as_u64().unwrap_or(0);
    if let Some(c) = v["counters"].as_object() {
        for (k, n) in c {
            *agg.counters.entry(k.clone()).or_default() += n.as_u64().unwrap_or(0);
        }
    }
    if !v["sample"].is_null() && agg.samples.len() < 3 {
        agg.samples.push(v["sample"].clone());
    }
}

fn finish(spec: &RunSpec, agg: Agg, t0: Instant, wall_exceeded: bool, run_dir: &Path) -> i32 {
    // ThreadSanitizer reports of sanitizer-variant workers: verdict bearing only if a frame lies in
    // the repository, otherwise informational
    let mut agg = agg;
    let mut tsan_reports = 0u64;
    let mut tsan_repo_reports = 0u64;
    if let Ok(rd) = fs::read_dir(run_dir) {
        for e in rd.flatten() {
            let name = e.file_name().to_string_lossy().to_string();
            if !name.contains(".tsan") {
                continue;
            }
            let text = fs::read_to_string(e.path()).unwrap_or_default();
            for block in text.split("WARNING: ThreadSanitizer:").skip(1) {
                tsan_reports += 1;
                let kind = block.lines().next().unwrap_or("").trim().split(" (").next().unwrap_or("").replace(' ', "_");
                if let Some(frame) = block.lines().find(|l| l.contains("/repo/")) {
                    tsan_repo_reports += 1;
                    let loc = frame.split("/repo/").nth(1).unwrap_or("").split_whitespace().next().unwrap_or("");
                    let loc: String = loc.split(':').take(2).collect::<Vec<_>>().join(":");
                    let sig = format!("tsan.{}@{}", kind, loc);
                    let e = agg.viols.entry(sig).or_insert((0, block.lines().take(30).collect::<Vec<_>>().join("\n"), e.path().to_string_lossy().to_string()));
                    e.0 += 1;
                }
            }
        }
    }
    let known = load_known();
    let mut unlisted: Vec<(&String, &(u64, String, String))> = Vec::new();
    let mut listed: Vec<String> = Vec::new();
    for (sig, info) in &agg.viols {
        match known.open.iter().find(|(p, s, _)| p == &spec.prop && s == sig) {
            Some((_, _, text)) => listed.push(format!("KNOWN-FINDING: property={} {} (seen {} times in this run)", spec.prop, text, info.0)),
            None => unlisted.push((sig, info)),
        }
    }
    let wall = t0.elapsed().as_secs_f64();
    let nontrivial = agg.nontrivial.len() as u64 + agg.nontrivial_extra;

    // evidence
    let mut coverage = Map::new();
    coverage.insert("evaluations".into(), json!(agg.evaluations));
    coverage.insert("distinct_nontrivial".into(), json!(nontrivial));
    coverage.insert("rule".into(), json!(spec.rule));
    let samples = if agg.samples.is_empty() {
        vec![json!("no case produced a sample (all cases failed before observation)")]
    } else {
        agg.samples.clone()
    };
    coverage.insert("samples".into(), json!(samples));
    coverage.insert("monitor_counters".into(), json!(agg.counters));
    coverage.insert("inconclusive_cases".into(), json!(agg.inconclusive));
    coverage.insert("violation_signatures".into(), json!(agg.viols.iter().map(|(s, i)| json!({"signature": s, "count": i.0})).collect::<Vec<_>>()));
    coverage.insert("violations_of_other_properties_seen".into(), json!(agg.other_prop_viols));
    coverage.insert("build_variants".into(), json!(spec.variants));
    if spec.variants.iter().any(|v| v == "tsan") {
        coverage.insert("thread_sanitizer".into(), json!({"reports_total": tsan_reports, "reports_with_a_repository_frame": tsan_repo_reports, "note": "supplementary tripwire: only reports with a frame in /repo count as violations"}));
    }
    coverage.insert("workers".into(), json!(spec.workers));
    coverage.insert("cpu_budget_s_per_case".into(), json!(spec.cpu_budget_s));
    coverage.insert("slowest_case_ms".into(), json!(agg.max_case_ms));
    coverage.insert("harness_errors".into(), json!(agg.harness_errors));
    coverage.insert("wall_clock_limit_hit".into(), json!(wall_exceeded));
    for (k, v) in &spec.extra_coverage {
        coverage.insert(k.clone(), v.clone());
    }
    let evidence = json!({
        "property_id": spec.prop,
        "tier": spec.tier,
        "seed": spec.seed,
        "level": spec.level,
        "coverage": coverage,
        "assumptions": refmodel::ASSUMPTIONS,
        "wall_s": (wall * 10.0).round() / 10.0,
        "violations": unlisted.len(),
    });
    let _ = fs::create_dir_all(format!("{}/evidence", verif_dir()));
    fs::write(
        format!("{}/evidence/{}.json", verif_dir(), spec.prop),
        serde_json::to_string_pretty(&evidence).unwrap(),
    )
    .expect("write evidence");

    println!(
        "{} {} seed={} cases={} nontrivial={} wall={:.1}s slowest_case={}ms",
        spec.prop, spec.tier, spec.seed, agg.evaluations, nontrivial, wall, agg.max_case_ms
    );
    let top: Vec<String> = agg.counters.iter().map(|(k, v)| format!("{}={}", k, v)).collect();
    println!("observed: {}", top.join(" "));
    for (k, n) in &agg.inconclusive {
        println!("inconclusive cases: {} x {}", n, k);
    }
    for l in &listed {
        println!("{}", l);
    }
    let keep_run_dir = !unlisted.is_empty() || !agg.harness_errors.is_empty();
    if !keep_run_dir {
        let _ = fs::remove_dir_all(run_dir);
    }
    if !unlisted.is_empty() {
        for (sig, (count, detail, replay)) in &unlisted {
            println!("violation signature={} count={} first: {}", sig, count, detail.lines().next().unwrap_or(""));
            println!("VIOLATION property={} replay={}", spec.prop, replay);
        }
        return 1;
    }
    if !agg.harness_errors.is_empty() {
        for e in agg.harness_errors.iter().take(5) {
            println!("harness error: {}", e);
        }
        println!("INCONCLUSIVE property={} harness errors", spec.prop);
        return 2;
    }
    if wall_exceeded {
        println!("INCONCLUSIVE property={} wall-clock limit of {}s hit", spec.prop, spec.wall_limit_s);
        return 2;
    }
    if nontrivial < spec.min_nontrivial {
        println!(
            "INCONCLUSIVE property={} only {} distinct non-trivial cases (floor {})",
            spec.prop, nontrivial, spec.min_nontrivial
        );
        return 2;
    }
    0
}
