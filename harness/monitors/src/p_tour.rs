//! C12: tour edits follow the insert/remove reference semantics.
//! Direct calls of Tour::insert_path / remove / sub_path / conflict / check_removable on
//! tours obtained through Schedule::tour_of, (a) exhaustively over a bounded family of tiny
//! networks, (b) on random networks beyond the bound.

use crate::bridge::{vt, Bridge};
use crate::gen::{self, GenOpts, Profile};
use crate::orch::{guard, CaseOut, Ctx};
use crate::p_hist::random_path;
use crate::rng::{hash_str, mix, Rng};
use model::base_types::VehicleIdx;
use refmodel::tourref::{self, RemoveResult};
use refmodel::{Inst, N};
use serde_json::{json, Value};
use solution::path::Path;
use solution::segment::Segment;
use solution::tour::Tour;
use solution::Schedule;

pub const CONFIGS: u64 = 72;
pub const KINDS: u64 = 54;
pub const CHUNK: u64 = 400;

fn combos() -> Vec<Vec<u64>> {
    let mut v = Vec::new();
    for a in 0..KINDS {
        v.push(vec![a]);
    }
    for a in 0..KINDS {
        for b in a..KINDS {
            v.push(vec![a, b]);
        }
    }
    for a in 0..KINDS {
        for b in a..KINDS {
            for c in b..KINDS {
                v.push(vec![a, b, c]);
            }
        }
    }
    v
}

pub fn family_size() -> u64 {
    (KINDS + KINDS * (KINDS + 1) / 2 + KINDS * (KINDS + 1) * (KINDS + 2) / 6) * CONFIGS
}
pub fn family_size_le2() -> u64 {
    (KINDS + KINDS * (KINDS + 1) / 2) * CONFIGS
}

const SLOT: i64 = 600;
const BASE: i64 = 19786 * 86400 + 8 * 3600;

/// the network number `n` of the bounded family as input JSON
pub fn family_network(combo: &[u64], config: u64) -> Value {
    let dh01 = (config % 3) as i64;
    let dh10 = ((config / 3) % 3) as i64;
    let shunt_min = ((config / 9) % 2) as i64;
    let shunt_dh = ((config / 18) % 2) as i64;
    let forbid = (config / 36) % 2 == 1;
    let starts_lens: Vec<(i64, i64)> = {
        let mut v = Vec::new();
        for s in 0..5 {
            v.push((s, 1));
        }
        for s in 0..4 {
            v.push((s, 2));
        }
        v
    };
    let mut route_segments = Vec::new();
    let mut departures = Vec::new();
    let mut slots = Vec::new();
    for (k, &kind) in combo.iter().enumerate() {
        if kind < 36 {
            let (s, l) = starts_lens[(kind / 4) as usize];
            let (o, d) = [(0, 0), (0, 1), (1, 0), (1, 1)][(kind % 4) as usize];
            route_segments.push(json!({"id": format!("rs{}", k), "order": 0, "origin": format!("L{}", o), "destination": format!("L{}", d), "distance": 1000 * (k as i64 + 1), "duration": l * SLOT}));
            departures.push(json!({"id": format!("d{}", k), "route": format!("r{}", k), "segments": [{"id": format!("t{}", k), "routeSegment": format!("rs{}", k), "departure": refmodel::time::format(BASE + s * SLOT), "passengers": 10, "seated": 5}]}));
        } else {
            let kk = kind - 36;
            let (s, l) = starts_lens[(kk / 2) as usize];
            slots.push(json!({"id": format!("m{}", k), "location": format!("L{}", kk % 2), "start": refmodel::time::format(BASE + s * SLOT), "end": refmodel::time::format(BASE + (s + l) * SLOT), "trackCount": 3}));
        }
    }
    let routes: Vec<Value> = route_segments
        .iter()
        .map(|rs| {
            let id = rs["id"].as_str().unwrap().replace("rs", "r");
            json!({"id": id, "vehicleType": "V", "segments": [rs]})
        })
        .collect();
    let mut root = json!({
        "vehicleTypes": [{"id": "V", "capacity": 100, "seats": 50}],
        "locations": [{"id": "L0"}, {"id": "L1"}],
        "depots": [
            {"id": "P0", "location": "L0", "capacity": 50, "allowedTypes": [{"vehicleType": "V"}]},
            {"id": "P1", "location": "L1", "capacity": 50, "allowedTypes": [{"vehicleType": "V"}]}
        ],
        "routes": routes,
        "departures": departures,
        "deadHeadTrips": {"indices": ["L0", "L1"], "durations": [[0, dh01 * SLOT], [dh10 * SLOT, 0]], "distances": [[0, 7000], [9000, 0]]},
        "parameters": {
            "forbidDeadHeadTrips": forbid,
            "shunting": {"minimalDuration": shunt_min * SLOT, "deadHeadTripDuration": shunt_dh * SLOT},
            "maintenance": {"maximalDistance": 50000},
            "costs": {"staff": 1, "serviceTrip": 2, "maintenance": 1, "deadHeadTrip": 5, "idle": 1}
        }
    });
    if !slots.is_empty() {
        root["maintenanceSlots"] = json!(slots);
    }
    root
}

/// all chains (time ordered, consecutive connectable) over the activities, incl. single nodes
fn chains(inst: &Inst, acts: &[N], max_len: usize) -> Vec<Vec<N>> {
    let mut sorted = acts.to_vec();
    sorted.sort_by_key(|&n| (inst.start(n), inst.end(n), n));
    let mut res: Vec<Vec<N>> = Vec::new();
    let n = sorted.len();
    for mask in 1u32..(1 << n) {
        let sel: Vec<N> = (0..n).filter(|i| mask & (1 << i) != 0).map(|i| sorted[i]).collect();
        if sel.len() <= max_len && inst.is_path(&sel) {
            res.push(sel);
        }
    }
    res
}

struct Stats {
    inserts: u64,
    removes: u64,
    sub_paths: u64,
    conflicts: u64,
    with_drop: u64,
    with_tie: u64,
    tours: u64,
}

fn path_has_tie_with_tour(inst: &Inst, tour: &[N], path: &[N]) -> bool {
    let f = path.iter().copied().find(|n| n.is_activity());
    let l = path.iter().rev().copied().find(|n| n.is_activity());
    tour.iter().any(|&t| {
        t.is_activity()
            && (f.map(|x| inst.end(t) == inst.start(x)).unwrap_or(false) || l.map(|x| inst.end(x) == inst.start(t)).unwrap_or(false))
    })
}

/// judge all edits of one tour against the reference
#[allow(clippy::too_many_arguments)]
fn judge_tour(
    b: &Bridge,
    tour: &Tour,
    paths: &[Vec<N>],
    out: &mut CaseOut,
    st: &mut Stats,
    ctx_desc: &dyn Fn() -> Value,
    nontrivial_key: &str,
) {
    let inst = &b.inst;
    let nodes: Vec<N> = tour.all_nodes_iter().map(|n| b.n(n)).collect();
    let is_dummy = tour.is_dummy();
    st.tours += 1;
    let mut witness_needed = false;
    // ---- insert
    for path in paths {
        let p = match Path::new(b.nodes(path), b.net.clone()) {
            Ok(Some(p)) => p,
            _ => continue,
        };
        st.inserts += 1;
        let r = tourref::insert(inst, &nodes, is_dummy, path);
        let tie = path_has_tie_with_tour(inst, &nodes, path);
        if tie {
            st.with_tie += 1;
        }
        if !r.dropped.iter().all(|n| n.is_depot()) {
            st.with_drop += 1;
        }
        if tie || !r.dropped.is_empty() {
            out.nontrivial.push(format!("{}|ins|{:?}|{:?}", nontrivial_key, nodes, path));
        }
        let seg = Segment::new(b.idx(r.inserted[0]), b.idx(*r.inserted.last().unwrap()));
        let tag = if tie { "tie" } else { "no_tie" };
        match guard(|| tour.insert_path(p.clone())) {
            Err(pn) => {
                out.viol("C12", &format!("insert.{}", pn.sig()), format!("insert_path panicked: {} at {}; tour {:?} path {:?}", pn.message, pn.location, b.ids(&nodes), b.ids(path)));
                witness_needed = true;
            }
            Ok((new_tour, dropped)) => {
                let got: Vec<N> = new_tour.all_nodes_iter().map(|n| b.n(n)).collect();
                if got != r.tour {
                    out.viol(
                        "C12",
                        &format!("insert.result_tour.{}", tag),
                        format!("tour {:?} (dummy {}) + path {:?}: got {:?}, reference {:?}", b.ids(&nodes), is_dummy, b.ids(path), b.ids(&got), b.ids(&r.tour)),
                    );
                    witness_needed = true;
                }
                let got_drop: Vec<N> = dropped.map(|d| d.iter().map(|n| b.n(n)).filter(|n| n.is_activity()).collect()).unwrap_or_default();
                let want_drop: Vec<N> = r.dropped.iter().copied().filter(|n| n.is_activity()).collect();
                if got_drop != want_drop {
                    out.viol(
                        "C12",
                        &format!("insert.reported_drop_list.{}", tag),
                        format!("tour {:?} + path {:?}: reported {:?}, reference drops {:?}", b.ids(&nodes), b.ids(path), b.ids(&got_drop), b.ids(&want_drop)),
                    );
                    witness_needed = true;
                }
                // the cached figures of the edited tour are the true ones
                let c = inst.tour_costs(&got);
                if new_tour.costs() as i128 != c || crate::bridge::dist_to_opt(new_tour.dead_head_distance()) != inst.dead_head_distance(&got) {
                    out.viol("C09", "tour.edit_caches", format!("insert_path result caches differ from recomputation for {:?}", b.ids(&got)));
                }
            }
        }
        // conflict() of the same segment names the dropped nodes
        st.conflicts += 1;
        match guard(|| tour.conflict(seg)) {
            Err(pn) => {
                out.viol("C12", &format!("conflict.{}", pn.sig()), format!("conflict panicked: {}", pn.message));
            }
            Ok(c) => {
                let got: Vec<N> = c.map(|d| d.iter().map(|n| b.n(n)).filter(|n| n.is_activity()).collect()).unwrap_or_default();
                let want: Vec<N> = r.dropped.iter().copied().filter(|n| n.is_activity()).collect();
                if got != want {
                    out.viol(
                        "C12",
                        &format!("conflict.nodes.{}", tag),
                        format!("tour {:?}, segment {:?}: conflict() names {:?}, reference drops {:?}", b.ids(&nodes), b.ids(&r.inserted), b.ids(&got), b.ids(&want)),
                    );
                    witness_needed = true;
                }
            }
        }
    }
    // ---- remove / sub_path / check_removable for every segment i <= j
    for i in 0..nodes.len() {
        for j in i..nodes.len() {
            let seg = Segment::new(b.idx(nodes[i]), b.idx(nodes[j]));
            if !nodes[i..=j].iter().any(|n| n.is_activity()) {
                continue; // depot-only segments are outside the documented domain (a Path needs an activity)
            }
            st.sub_paths += 1;
            match guard(|| tour.sub_path(seg)) {
                Err(pn) => out.viol("C12", &format!("sub_path.{}", pn.sig()), format!("sub_path panicked: {}", pn.message)),
                Ok(Err(e)) => {
                    // a segment consisting only of depots is documented as unexpected use
                    if nodes[i..=j].iter().any(|n| n.is_activity()) {
                        let tie = (i > 0 && inst.end(nodes[i - 1]) == inst.start(nodes[i])) || (j > 0 && inst.end(nodes[j - 1]) == inst.start(nodes[j]));
                        out.viol(
                            "C12",
                            if tie { "sub_path.fails_on_existing_segment.tie" } else { "sub_path.fails_on_existing_segment" },
                            format!("tour {:?}: sub_path({}, {}) failed: {}", b.ids(&nodes), inst.node_id(nodes[i]), inst.node_id(nodes[j]), e),
                        );
                        witness_needed = true;
                    }
                }
                Ok(Ok(p)) => {
                    let got: Vec<N> = p.iter().map(|n| b.n(n)).collect();
                    if got != nodes[i..=j] {
                        out.viol("C12", "sub_path.wrong_nodes", format!("tour {:?}: sub_path gave {:?}", b.ids(&nodes), b.ids(&got)));
                        witness_needed = true;
                    }
                }
            }
            if !nodes[i..=j].iter().any(|n| n.is_activity()) {
                continue; // depot-only segments are outside the documented domain
            }
            st.removes += 1;
            let want = tourref::remove(inst, &nodes, is_dummy, i, j);
            let removable = guard(|| tour.check_removable(seg));
            let removed = guard(|| tour.remove(seg));
            match (&want, removed) {
                (_, Err(pn)) => out.viol("C12", &format!("remove.{}", pn.sig()), format!("remove panicked: {}", pn.message)),
                (RemoveResult::Refused(why), Ok(Ok(_))) => {
                    out.viol(
                        "C12",
                        "remove.accepted_but_must_be_refused",
                        format!("tour {:?}: removing {:?} {}", b.ids(&nodes), b.ids(&nodes[i..=j]), why),
                    );
                    witness_needed = true;
                }
                (RemoveResult::Refused(_), Ok(Err(_))) => {
                    out.nontrivial.push(format!("{}|rem-refused|{:?}|{}|{}", nontrivial_key, nodes, i, j));
                }
                (RemoveResult::Done(..), Ok(Err(e))) => {
                    out.viol(
                        "C12",
                        "remove.refused_but_valid",
                        format!("tour {:?}: removing {:?} was refused: {}", b.ids(&nodes), b.ids(&nodes[i..=j]), e),
                    );
                    witness_needed = true;
                }
                (RemoveResult::Done(rest, rem), Ok(Ok((got_tour, got_path)))) => {
                    let got_rest: Option<Vec<N>> = got_tour.as_ref().map(|t| t.all_nodes_iter().map(|n| b.n(n)).collect());
                    let got_rem: Vec<N> = got_path.iter().map(|n| b.n(n)).collect();
                    if &got_rest != rest || &got_rem != rem {
                        out.viol(
                            "C12",
                            "remove.result",
                            format!("tour {:?} minus {:?}: got {:?} / {:?}, reference {:?}", b.ids(&nodes), b.ids(rem), got_rest.as_ref().map(|x| b.ids(x)), b.ids(&got_rem), rest.as_ref().map(|x| b.ids(x))),
                        );
                        witness_needed = true;
                    }
                    if let Some(t) = got_tour {
                        let g: Vec<N> = t.all_nodes_iter().map(|n| b.n(n)).collect();
                        if t.costs() as i128 != inst.tour_costs(&g) || crate::bridge::dist_to_opt(t.dead_head_distance()) != inst.dead_head_distance(&g) {
                            out.viol("C09", "tour.edit_caches", format!("remove result caches differ from recomputation for {:?}", b.ids(&g)));
                        }
                    }
                }
            }
            if let Ok(r) = removable {
                let ok_ref = matches!(want, RemoveResult::Done(..));
                if r.is_ok() != ok_ref {
                    out.viol(
                        "C12",
                        "check_removable.disagrees",
                        format!("tour {:?}: check_removable({:?}) = {:?}, reference removable = {}", b.ids(&nodes), b.ids(&nodes[i..=j]), r, ok_ref),
                    );
                    witness_needed = true;
                }
            }
        }
    }
    if witness_needed && out.witness.is_none() {
        out.witness = Some(ctx_desc());
    }
}

/// tours of a network: every chain as a real tour (depots P0..P0) and as a dummy tour
fn tours_of(b: &Bridge, chains_: &[Vec<N>]) -> Vec<(Schedule, VehicleIdx)> {
    let mut v = Vec::new();
    let empty = Schedule::empty(b.net.clone());
    for c in chains_ {
        let mut nodes = vec![N::SD(0)];
        nodes.extend(c.iter().copied());
        nodes.push(N::ED(0));
        if let Ok((s, id)) = empty.spawn_vehicle_for_path(vt(0), b.nodes(&nodes)) {
            // dummy version: service trips of the same chain
            if let Ok(s2) = s.replace_vehicle_by_dummy(id) {
                if let Some(d) = s2.dummy_iter().next() {
                    v.push((s2.clone(), d));
                }
            }
            v.push((s, id));
        }
    }
    v
}

fn family_chunk(idx: u64, out: &mut CaseOut, st: &mut Stats) {
    let all = combos();
    let first = idx * CHUNK;
    let total = family_size();
    for n in first..(first + CHUNK).min(total) {
        let combo = &all[(n / CONFIGS) as usize];
        let config = n % CONFIGS;
        let input = family_network(combo, config);
        let b = match guard(|| Bridge::new(&input)) {
            Ok(Ok(b)) => b,
            _ => {
                out.inconclusive.push("family network could not be loaded".to_string());
                continue;
            }
        };
        out.count("family_networks", 1);
        let acts = b.inst.activities_of_type(0);
        let ch = chains(&b.inst, &acts, 3);
        let mut paths: Vec<Vec<N>> = Vec::new();
        for c in &ch {
            paths.push(c.clone());
            let mut p = vec![N::SD(1)];
            p.extend(c.iter().copied());
            paths.push(p.clone());
            p.push(N::ED(1));
            paths.push(p);
            let mut p = c.clone();
            p.push(N::ED(1));
            paths.push(p);
        }
        let tours = match guard(|| tours_of(&b, &ch)) {
            Ok(t) => t,
            Err(p) => {
                out.inconclusive.push(format!("building family tours panicked ({})", p.sig()));
                continue;
            }
        };
        for (s, id) in &tours {
            let tour = s.tour_of(*id).unwrap();
            let key = format!("fam{}", n);
            let desc = || json!({"family_network": n, "combo": combo, "config": config, "input": input.clone()});
            judge_tour(&b, tour, &paths, out, st, &desc, &key);
        }
    }
}

/// a shuttle tour of 40-110 activities and trips at remote stations: along the tour the nodes
/// that can reach the inserted trip do not form a prefix, and long blocks cannot reach it
fn shuttle_case(rng: &mut Rng, tag: &str, out: &mut CaseOut, st: &mut Stats) {
    let (input, ids) = gen::shuttle_network(rng, tag);
    let b = Bridge::new(&input).expect("bridge");
    let inst = &b.inst;
    out.count("shuttle_networks", 1);
    let chain: Vec<N> = ids.iter().map(|id| N::T(inst.trips.iter().position(|t| &t.id == id).expect("shuttle trip"))).collect();
    let nd = inst.depots.len();
    let mut nodes = vec![N::SD(rng.usize(0, nd - 1))];
    nodes.extend(chain.iter().copied());
    nodes.push(N::ED(rng.usize(0, nd - 1)));
    let empty = Schedule::empty(b.net.clone());
    let (s, id) = match guard(|| empty.spawn_vehicle_for_path(vt(0), b.nodes(&nodes))) {
        Ok(Ok(x)) => x,
        _ => {
            out.count("shuttle_networks_tour_not_built", 1);
            return;
        }
    };
    let in_chain: std::collections::BTreeSet<N> = chain.iter().copied().collect();
    let others: Vec<N> = (0..inst.trips.len()).map(N::T).filter(|n| !in_chain.contains(n)).collect();
    let mut paths: Vec<Vec<N>> = others.iter().map(|&n| vec![n]).collect();
    for _ in 0..10 {
        let p = random_path(rng, inst, 0, 3);
        if !p.is_empty() {
            paths.push(p);
        }
    }
    // how non-monotone is it? count (path, tour) pairs where a non-reaching node precedes a reaching one
    let mut non_prefix = 0u64;
    let mut long_blocks = 0u64;
    for p in &paths {
        let first = p[0];
        let reach: Vec<bool> = chain.iter().map(|&n| inst.connectable(n, first)).collect();
        let last_true = reach.iter().rposition(|&r| r);
        if let Some(lt) = last_true {
            if reach[..lt].iter().any(|&r| !r) {
                non_prefix += 1;
            }
            let before: Vec<&N> = chain.iter().filter(|&&n| inst.end(n) <= inst.start(first)).collect();
            if before.len() >= lt + 1 + 16 {
                long_blocks += 1;
            }
        }
    }
    out.count("shuttle.paths_where_reaching_nodes_are_not_a_prefix", non_prefix);
    out.count("shuttle.paths_behind_16_or_more_non_reaching_nodes", long_blocks);
    let key = tag.to_string();
    let desc = || json!({"input": input.clone()});
    judge_tour(&b, s.tour_of(id).unwrap(), &paths, out, st, &desc, &key);
    if let Ok(Ok(s2)) = guard(|| s.replace_vehicle_by_dummy(id)) {
        if let Some(d) = s2.dummy_iter().next() {
            judge_tour(&b, s2.tour_of(d).unwrap(), &paths, out, st, &desc, &key);
        }
    }
}

fn random_case(ctx: &Ctx, idx: u64, out: &mut CaseOut, st: &mut Stats) {
    let mut rng = Rng::new(mix(&[ctx.seed, hash_str("tour"), idx]));
    let profile = *rng.pick(&[Profile::Ties, Profile::Ties, Profile::NonMetric, Profile::Mixed, Profile::Forbid, Profile::Maint]);
    let mut opts = GenOpts::new(profile, if ctx.thorough() { 8 } else { 5 });
    opts.force_slots = rng.chance(1, 2);
    opts.force_turnaround = rng.chance(1, 4);
    let tag = format!("t{}c{}", ctx.seed, idx);
    let mut input = gen::generate(&mut rng, &opts, &tag);
    // a third of the networks gets connections that are much slower than a detour (dead-heads
    // need not satisfy the triangle inequality)
    if rng.chance(1, 3) {
        let n = input["deadHeadTrips"]["indices"].as_array().map(|a| a.len()).unwrap_or(0);
        if n >= 3 {
            for _ in 0..rng.usize(1, 4) {
                let i = rng.usize(0, n - 1);
                let k = (i + rng.usize(1, n - 1)) % n;
                input["deadHeadTrips"]["durations"][i][k] = json!(rng.range(6, 30) * 3600);
            }
            out.count("networks_with_slow_direct_connections", 1);
        }
    }
    if rng.chance(1, 3) {
        input = gen::gap_network(&mut rng, &tag);
        out.count("gap_networks", 1);
    }
    if rng.chance(1, 5) {
        input = gen::turnaround_network(&mut rng, &tag);
        out.count("turnaround_networks", 1);
    }
    let busy_line = rng.chance(1, 4);
    if busy_line {
        let ndep = rng.usize(30, 90);
        let (ws, ld) = (rng.chance(1, 2), false);
        input = gen::line_network(&mut rng, &tag, ndep, ws, ld);
        out.count("busy_line_networks", 1);
    }
    if rng.chance(1, 6) {
        shuttle_case(&mut rng, &tag, out, st);
        return;
    }
    let b = Bridge::new(&input).expect("bridge");
    out.count("random_networks", 1);
    out.count(&format!("profile.{}", profile.name()), 1);
    let inst = &b.inst;
    let nd = inst.depots.len();
    let empty = Schedule::empty(b.net.clone());
    let mk_paths = |rng: &mut Rng, t: usize| -> Vec<Vec<N>> {
        let mut paths: Vec<Vec<N>> = Vec::new();
        for _ in 0..10 {
            let mut p = random_path(rng, inst, t, 4);
            if p.is_empty() {
                continue;
            }
            match rng.below(5) {
                0 => p.insert(0, N::SD(rng.usize(0, nd - 1))),
                1 => p.push(N::ED(rng.usize(0, nd - 1))),
                2 => {
                    p.insert(0, N::SD(rng.usize(0, nd - 1)));
                    p.push(N::ED(rng.usize(0, nd - 1)));
                }
                _ => {}
            }
            paths.push(p);
        }
        paths
    };
    if busy_line {
        // the long tours of the real start solution (dozens of activities each)
        if let Ok(start) = guard(|| solver::min_cost_flow_solver::MinCostFlowSolver::initialize(b.net.clone()).solve()) {
            let mut vs: Vec<_> = start.vehicles_iter_all().collect();
            rng.shuffle(&mut vs);
            let mut longest = 0usize;
            for v in vs.into_iter().take(10) {
                let tour = start.tour_of(v).unwrap();
                longest = longest.max(tour.all_nodes_iter().count());
                let t = start.vehicle_type_of(v).ok().and_then(|x| (0..inst.types.len()).find(|&k| vt(k) == x)).unwrap_or(0);
                let paths = mk_paths(&mut rng, t);
                let key = tag.clone();
                let desc = || json!({"input": input.clone()});
                judge_tour(&b, tour, &paths, out, st, &desc, &key);
            }
            out.count("busy_line.longest_tour_nodes_sum", longest as u64);
            if longest >= 20 {
                out.count("busy_line.networks_with_a_tour_of_20_or_more_nodes", 1);
            }
        }
    }
    for _ in 0..12 {
        let t = rng.usize(0, inst.types.len() - 1);
        let chain = random_path(&mut rng, inst, t, if busy_line { 70 } else { 7 });
        if chain.is_empty() {
            continue;
        }
        let mut nodes = vec![N::SD(rng.usize(0, nd - 1))];
        nodes.extend(chain.iter().copied());
        nodes.push(N::ED(rng.usize(0, nd - 1)));
        let (s, id) = match guard(|| empty.spawn_vehicle_for_path(vt(t), b.nodes(&nodes))) {
            Ok(Ok(x)) => x,
            _ => continue,
        };
        let mut paths: Vec<Vec<N>> = Vec::new();
        for _ in 0..10 {
            let mut p = random_path(&mut rng, inst, t, 4);
            if p.is_empty() {
                continue;
            }
            match rng.below(5) {
                0 => p.insert(0, N::SD(rng.usize(0, nd - 1))),
                1 => p.push(N::ED(rng.usize(0, nd - 1))),
                2 => {
                    p.insert(0, N::SD(rng.usize(0, nd - 1)));
                    p.push(N::ED(rng.usize(0, nd - 1)));
                }
                _ => {}
            }
            paths.push(p);
        }
        let key = tag.clone();
        let desc = || json!({"input": input.clone()});
        judge_tour(&b, s.tour_of(id).unwrap(), &paths, out, st, &desc, &key);
        if let Ok(Ok(s2)) = guard(|| s.replace_vehicle_by_dummy(id)) {
            if let Some(d) = s2.dummy_iter().next() {
                judge_tour(&b, s2.tour_of(d).unwrap(), &paths, out, st, &desc, &key);
            }
        }
    }
    // directed: dummy tours whose consecutive nodes are NOT connectable. A vehicle drives
    // a -> slot -> c where the detour over the slot is feasible but a cannot reach c directly;
    // turning it into a dummy strips the slot.
    let mut found = 0;
    'outer: for t in 0..inst.types.len() {
        let trips: Vec<N> = (0..inst.trips.len()).filter(|&i| inst.trips[i].vtype == t).map(N::T).collect();
        for &a in &trips {
            for m in 0..inst.slots.len() {
                let m = N::S(m);
                if !inst.connectable(a, m) {
                    continue;
                }
                for &c in &trips {
                    if inst.connectable(m, c) && !inst.connectable(a, c) {
                        let nodes = vec![N::SD(0), a, m, c, N::ED(0)];
                        if let Ok(Ok((s, id))) = guard(|| empty.spawn_vehicle_for_path(vt(t), b.nodes(&nodes))) {
                            if let Ok(Ok(s2)) = guard(|| s.replace_vehicle_by_dummy(id)) {
                                if let Some(d) = s2.dummy_iter().next() {
                                    let paths: Vec<Vec<N>> = vec![vec![a], vec![c], vec![m]];
                                    let key = format!("{}|gap", tag);
                                    let desc = || json!({"input": input.clone(), "dummy_tour": b.ids(&[a, c])});
                                    judge_tour(&b, s2.tour_of(d).unwrap(), &paths, out, st, &desc, &key);
                                    out.count("dummy_tours_with_unconnectable_neighbours", 1);
                                    found += 1;
                                    if found >= 3 {
                                        break 'outer;
                                    }
                                }
                            }
                        }
                    }
                }
            }
        }
    }
}

/// number of family chunks a tier enumerates
pub fn family_chunks(thorough: bool) -> u64 {
    let n = if thorough { family_size() } else { family_size_le2() };
    (n + CHUNK - 1) / CHUNK
}

pub fn case(ctx: &Ctx, idx: u64) -> CaseOut {
    let mut out = CaseOut::default();
    let mut st = Stats { inserts: 0, removes: 0, sub_paths: 0, conflicts: 0, with_drop: 0, with_tie: 0, tours: 0 };
    let fam = family_chunks(ctx.thorough());
    if idx < fam {
        crate::orch::announce_cpu_budget(300.0);
        family_chunk(idx, &mut out, &mut st);
    } else if !ctx.thorough() && idx < fam + 60 {
        // quick tier: a seeded sample of chunks of the 3-node part of the family
        let mut rng = Rng::new(mix(&[ctx.seed, hash_str("tourfam"), idx]));
        let all = family_chunks(true);
        let chunk = fam + rng.below(all - fam);
        crate::orch::announce_cpu_budget(300.0);
        family_chunk(chunk, &mut out, &mut st);
        out.count("sampled_three_node_chunks", 1);
    } else {
        random_case(ctx, idx, &mut out, &mut st);
    }
    out.count("tours", st.tours);
    out.count("inserts_checked", st.inserts);
    out.count("removes_checked", st.removes);
    out.count("sub_paths_checked", st.sub_paths);
    out.count("conflicts_checked", st.conflicts);
    out.count("inserts_with_dropped_node", st.with_drop);
    out.count("inserts_with_time_tie", st.with_tie);
    // triples of different cases are distinct by construction (network number / instance tag in the key)
    let mut keys: Vec<String> = out.nontrivial.drain(..).collect();
    keys.sort();
    keys.dedup();
    out.count("nontrivial_triples", keys.len() as u64);
    out.nontrivial_extra = keys.len() as u64;
    if idx % 29 == 0 {
        out.sample = Some(json!({"case": idx, "kind": if idx < fam { "family chunk" } else { "sampled/random" }, "tours": st.tours, "inserts": st.inserts, "removes": st.removes}));
    }
    out
}
