//! C15: rotation-cycle bookkeeping is exact and its optimisation never worsens.

use crate::bridge::{vt, Bridge, TourObs};
use crate::gen::{self, GenOpts, Profile};
use crate::orch::{guard, CaseOut, Ctx};
use crate::p_hist::random_path;
use crate::rng::{hash_str, mix, Rng};
use im::HashMap as ImMap;
use model::base_types::VehicleIdx;
use rapid_solve::heuristics::Solver;
use refmodel::N;
use serde_json::{json, Value};
use solution::tour::Tour;
use solution::transition::Transition;
use solution::Schedule;
use solver::min_cost_flow_solver::MinCostFlowSolver;
use solver::transition_local_search::{build_transition_local_search_solver, TransitionWithInfo};
use std::collections::{BTreeMap, BTreeSet};

/// harness-side world: the tours it handed to the transition and who is a member
#[derive(Clone)]
pub struct World {
    pub tours: ImMap<VehicleIdx, Tour>,
    pub members: BTreeSet<VehicleIdx>,
    pub tr: Transition,
}

#[derive(Clone, Debug)]
pub enum TOp {
    NewFast,
    UpdateStart { v: VehicleIdx, depot: usize },
    UpdateEnd { v: VehicleIdx, depot: usize },
    AddOwn { v: VehicleIdx },
    Remove { v: VehicleIdx },
    AddEnd { v: VehicleIdx, cycle: usize },
    Move { v: VehicleIdx, cycle: usize },
    ThreeOpt { cycle: usize, i: usize, j: usize, k: usize },
    /// several vehicles changed in one schedule modification: the operations are applied one by
    /// one against the pre-batch tours plus the tours already updated in this batch (the way
    /// Schedule::update_transitions_and_violation_fast drives the transition)
    Batch(Vec<TOp>),
}

impl TOp {
    pub fn name(&self) -> String {
        match self {
            TOp::NewFast => "new_fast".into(),
            TOp::UpdateStart { v, depot } => format!("update_vehicle({},start_depot={})", v, depot),
            TOp::UpdateEnd { v, depot } => format!("update_vehicle({},end_depot={})", v, depot),
            TOp::AddOwn { v } => format!("add_vehicle_to_own_cycle({})", v),
            TOp::Remove { v } => format!("remove_vehicle({})", v),
            TOp::AddEnd { v, cycle } => format!("add_vehicle_at_the_end({},{})", v, cycle),
            TOp::Move { v, cycle } => format!("move_vehicle({},{})", v, cycle),
            TOp::ThreeOpt { cycle, i, j, k } => format!("replace_cycle({},three_opt({},{},{}))", cycle, i, j, k),
            TOp::Batch(ops) => format!("batch[{}]", ops.iter().map(|o| o.name()).collect::<Vec<_>>().join("; ")),
        }
    }
    pub fn kind(&self) -> &'static str {
        match self {
            TOp::NewFast => "new_fast",
            TOp::UpdateStart { .. } | TOp::UpdateEnd { .. } => "update_vehicle",
            TOp::AddOwn { .. } => "add_vehicle_to_own_cycle",
            TOp::Remove { .. } => "remove_vehicle",
            TOp::AddEnd { .. } => "add_vehicle_at_the_end",
            TOp::Move { .. } => "move_vehicle",
            TOp::ThreeOpt { .. } => "three_opt+replace_cycle",
            TOp::Batch(_) => "batch_update",
        }
    }
}

/// all operations whose preconditions hold in the world
pub fn applicable(b: &Bridge, w: &World, all: &[VehicleIdx]) -> Vec<TOp> {
    let nd = b.inst.depots.len();
    let mut ops = vec![TOp::NewFast];
    let ncycles = w.tr.number_of_cycles();
    for &v in all {
        if w.members.contains(&v) {
            for d in 0..nd {
                ops.push(TOp::UpdateStart { v, depot: d });
                ops.push(TOp::UpdateEnd { v, depot: d });
            }
            ops.push(TOp::Remove { v });
            for c in 0..ncycles {
                ops.push(TOp::Move { v, cycle: c });
            }
        } else {
            ops.push(TOp::AddOwn { v });
            for c in 0..ncycles {
                ops.push(TOp::AddEnd { v, cycle: c });
            }
        }
    }
    for (c, cyc) in w.tr.cycles_iter().enumerate() {
        let n = cyc.len();
        if n >= 3 {
            for i in 0..n - 2 {
                for j in i + 1..n - 1 {
                    for k in j + 1..n {
                        ops.push(TOp::ThreeOpt { cycle: c, i, j, k });
                    }
                }
            }
        }
    }
    ops
}

pub fn apply(b: &Bridge, w: &World, op: &TOp) -> World {
    let net = &b.net;
    let none: ImMap<VehicleIdx, &Tour> = ImMap::new();
    let mut n = w.clone();
    match op {
        TOp::NewFast => {
            let vs: Vec<VehicleIdx> = w.members.iter().copied().collect();
            n.tr = Transition::new_fast(&vs, &w.tours, net);
        }
        TOp::UpdateStart { v, depot } | TOp::UpdateEnd { v, depot } => {
            let old = w.tours.get(v).unwrap();
            let new_tour = if matches!(op, TOp::UpdateStart { .. }) {
                old.replace_start_depot(b.idx(N::SD(*depot))).unwrap()
            } else {
                old.replace_end_depot(b.idx(N::ED(*depot))).unwrap()
            };
            n.tr = w.tr.update_vehicle(*v, &new_tour, &none, &w.tours, net);
            n.tours.insert(*v, new_tour);
        }
        TOp::AddOwn { v } => {
            n.tr = w.tr.add_vehicle_to_own_cycle(*v, w.tours.get(v).unwrap(), net);
            n.members.insert(*v);
        }
        TOp::Remove { v } => {
            n.tr = w.tr.remove_vehicle(*v, &none, &w.tours, net);
            n.members.remove(v);
        }
        TOp::AddEnd { v, cycle } => {
            n.tr = w.tr.add_vehicle_at_the_end(*v, *cycle, &none, &w.tours, net);
            n.members.insert(*v);
        }
        TOp::Move { v, cycle } => {
            n.tr = w.tr.move_vehicle(*v, *cycle, &w.tours, net);
        }
        TOp::ThreeOpt { cycle, i, j, k } => {
            let c = w.tr.get_cycle(*cycle).three_opt(*i, *j, *k, &w.tours, net);
            n.tr = w.tr.replace_cycle(*cycle, c);
        }
        TOp::Batch(ops) => {
            // new tours first, so that references into them can be handed out
            let mut new_tours: Vec<(VehicleIdx, Tour)> = Vec::new();
            for o in ops {
                match o {
                    TOp::UpdateStart { v, depot } => new_tours.push((*v, w.tours.get(v).unwrap().replace_start_depot(b.idx(N::SD(*depot))).unwrap())),
                    TOp::UpdateEnd { v, depot } => new_tours.push((*v, w.tours.get(v).unwrap().replace_end_depot(b.idx(N::ED(*depot))).unwrap())),
                    _ => {}
                }
            }
            let mut updated: ImMap<VehicleIdx, &Tour> = ImMap::new();
            let mut tr = w.tr.clone();
            for o in ops {
                match o {
                    TOp::UpdateStart { v, .. } | TOp::UpdateEnd { v, .. } => {
                        let nt = &new_tours.iter().find(|(x, _)| x == v).unwrap().1;
                        tr = tr.update_vehicle(*v, nt, &updated, &w.tours, net);
                        updated.insert(*v, nt);
                    }
                    TOp::Remove { v } => {
                        tr = tr.remove_vehicle(*v, &updated, &w.tours, net);
                        n.members.remove(v);
                    }
                    _ => panic!("unsupported operation inside a batch"),
                }
            }
            n.tr = tr;
            drop(updated);
            for (v, t) in new_tours.iter() {
                n.tours.insert(*v, t.clone());
            }
        }
    }
    n
}

/// batches of two distinct member vehicles (ordered), four update variants each, plus
/// (update, remove) and (remove, update)
pub fn batch_ops(b: &Bridge, w: &World) -> Vec<TOp> {
    let ov = b.inst.overflow();
    let variants = |v: VehicleIdx| -> Vec<TOp> {
        vec![
            TOp::UpdateStart { v, depot: 1 },
            TOp::UpdateEnd { v, depot: 1 },
            TOp::UpdateStart { v, depot: ov },
            TOp::UpdateEnd { v, depot: 0 },
        ]
    };
    let members: Vec<VehicleIdx> = w.members.iter().copied().collect();
    let mut ops = Vec::new();
    for &a in &members {
        for &c in &members {
            if a == c {
                continue;
            }
            for x in variants(a) {
                for y in variants(c) {
                    ops.push(TOp::Batch(vec![x.clone(), y]));
                }
                ops.push(TOp::Batch(vec![x.clone(), TOp::Remove { v: c }]));
                ops.push(TOp::Batch(vec![TOp::Remove { v: c }, x.clone()]));
            }
        }
    }
    ops
}

#[derive(Default, Clone, Copy)]
pub struct Regions {
    pub empty: bool,
    pub singleton: bool,
    pub negative: bool,
}

/// bookkeeping oracle; returns (findings as (sig, detail)), regions seen
pub fn check(b: &Bridge, w: &World) -> (Vec<(String, String)>, Regions) {
    let inst = &b.inst;
    let mut f = Vec::new();
    let mut reg = Regions::default();
    let tr = &w.tr;
    let cycles: Vec<Vec<VehicleIdx>> = tr.cycles_iter().map(|c| c.iter().collect()).collect();
    let mut count: BTreeMap<VehicleIdx, usize> = BTreeMap::new();
    for c in &cycles {
        for v in c {
            *count.entry(*v).or_default() += 1;
        }
    }
    for v in &w.members {
        let c = count.get(v).copied().unwrap_or(0);
        if c != 1 {
            f.push(("cycles.member_count".to_string(), format!("{} occurs {} times in the cycles {:?}", v, c, cycles)));
        }
    }
    for v in count.keys() {
        if !w.members.contains(v) {
            f.push(("cycles.foreign_member".to_string(), format!("{} is in a cycle but is not a vehicle of the transition: {:?}", v, cycles)));
        }
    }
    // lookup and empty list (hook H3)
    #[cfg(rssched_verif)]
    {
        let lookup = tr.verif_cycle_lookup();
        let keys: BTreeSet<VehicleIdx> = lookup.iter().map(|(v, _)| *v).collect();
        if keys != w.members {
            f.push(("lookup.keys".to_string(), format!("lookup has keys {:?}, vehicles are {:?}", keys, w.members)));
        }
        for (v, c) in &lookup {
            if *c >= cycles.len() || !cycles[*c].contains(v) {
                f.push(("lookup.wrong_cycle".to_string(), format!("lookup[{}] = {} but cycles are {:?}", v, c, cycles)));
            }
        }
        let empties = tr.verif_empty_cycles();
        let set: BTreeSet<usize> = empties.iter().copied().collect();
        if set.len() != empties.len() {
            f.push(("empty_list.duplicate".to_string(), format!("{:?}", empties)));
        }
        for e in &empties {
            if *e >= cycles.len() {
                f.push(("empty_list.out_of_range".to_string(), format!("{:?} with {} cycles", empties, cycles.len())));
            } else if !cycles[*e].is_empty() {
                f.push(("empty_list.points_to_nonempty_cycle".to_string(), format!("empty list {:?}, cycles {:?}", empties, cycles)));
            }
        }
    }
    // counters
    let mut tot_v = 0i64;
    let mut tot_c = 0i64;
    let mut counters_ok = true;
    for (k, c) in tr.cycles_iter().enumerate() {
        let members: Vec<VehicleIdx> = c.iter().collect();
        if members.is_empty() {
            reg.empty = true;
        }
        if members.len() == 1 {
            reg.singleton = true;
        }
        let obs: Vec<TourObs> = members.iter().filter_map(|v| w.tours.get(v)).map(|t| TourObs::of(b, t, Some(0))).collect();
        if obs.len() != members.len() {
            counters_ok = false;
            continue;
        }
        let slices: Vec<&[N]> = obs.iter().map(|o| o.nodes.as_slice()).collect();
        let rc = inst.cycle_counter(&slices);
        if rc < 0 {
            reg.negative = true;
        }
        if rc != c.maintenance_counter() {
            f.push((
                format!("counter.cycle.len{}", members.len().min(3)),
                format!("cycle {} {:?}: cached counter {}, recomputed {}", k, members, c.maintenance_counter(), rc),
            ));
        }
        tot_v += rc.max(0);
        tot_c += rc;
    }
    if counters_ok && (tr.maintenance_violation() != tot_v || tr.maintenance_counter() != tot_c) {
        f.push((
            "counter.totals".to_string(),
            format!("cached totals (violation {}, counter {}), recomputed ({}, {})", tr.maintenance_violation(), tr.maintenance_counter(), tot_v, tot_c),
        ));
    }
    // successor
    for v in &w.members {
        if count.get(v).copied().unwrap_or(0) == 1 {
            if let Ok(s) = guard(|| tr.get_successor_of(*v)) {
                let c = cycles.iter().find(|c| c.contains(v)).unwrap();
                let p = c.iter().position(|x| x == v).unwrap();
                if s != c[(p + 1) % c.len()] {
                    f.push(("successor.wrong".to_string(), format!("successor of {} is {} in {:?}", v, s, c)));
                }
            }
        }
    }
    (f, reg)
}

/// the fixed small instance of the bounded-exhaustive part
pub fn small_instance() -> Value {
    small_instance_with(100000)
}

pub fn small_instance_with(max_distance: i64) -> Value {
    json!({
        "vehicleTypes": [{"id": "V", "capacity": 100, "seats": 50}],
        "locations": [{"id": "L0"}, {"id": "L1"}],
        "depots": [
            {"id": "P0", "location": "L0", "capacity": 9, "allowedTypes": [{"vehicleType": "V"}]},
            {"id": "P1", "location": "L1", "capacity": 9, "allowedTypes": [{"vehicleType": "V"}]}
        ],
        "routes": [
            {"id": "r0", "vehicleType": "V", "segments": [{"id": "r0s", "order": 0, "origin": "L0", "destination": "L1", "distance": 30000, "duration": 3600}]},
            {"id": "r1", "vehicleType": "V", "segments": [{"id": "r1s", "order": 0, "origin": "L1", "destination": "L0", "distance": 45000, "duration": 3600}]}
        ],
        "departures": [
            {"id": "d0", "route": "r0", "segments": [{"id": "a", "routeSegment": "r0s", "departure": "2024-03-04T08:00:00", "passengers": 300, "seated": 10}]},
            {"id": "d1", "route": "r1", "segments": [{"id": "b", "routeSegment": "r1s", "departure": "2024-03-04T10:00:00", "passengers": 300, "seated": 10}]},
            {"id": "d2", "route": "r0", "segments": [{"id": "c", "routeSegment": "r0s", "departure": "2024-03-04T12:00:00", "passengers": 300, "seated": 10}]},
            {"id": "d3", "route": "r1", "segments": [{"id": "d", "routeSegment": "r1s", "departure": "2024-03-04T14:00:00", "passengers": 300, "seated": 10}]}
        ],
        "maintenanceSlots": [{"id": "m", "location": "L0", "start": "2024-03-04T04:00:00", "end": "2024-03-04T06:00:00", "trackCount": 4}],
        "deadHeadTrips": {"indices": ["L0", "L1"], "durations": [[0, 1800], [2400, 0]], "distances": [[0, 12000], [17000, 0]]},
        "parameters": {
            "shunting": {"minimalDuration": 60, "deadHeadTripDuration": 120},
            "maintenance": {"maximalDistance": max_distance},
            "costs": {"staff": 1, "serviceTrip": 2, "maintenance": 1, "deadHeadTrip": 5, "idle": 1}
        }
    })
}

/// four hand-picked vehicles: maintenance visiting and not, three depots incl. overflow
pub fn small_world(b: &Bridge) -> (Vec<VehicleIdx>, ImMap<VehicleIdx, Tour>) {
    let t = |id: &str| N::T(b.inst.trip_by_id[id]);
    let m = N::S(0);
    let ov = b.inst.overflow();
    let paths: Vec<Vec<N>> = vec![
        vec![N::SD(0), t("a"), N::ED(0)],
        vec![N::SD(1), m, t("a"), t("b"), N::ED(0)],
        vec![N::SD(ov), t("c"), N::ED(1)],
        vec![N::SD(0), m, t("d"), N::ED(1)],
    ];
    let mut s = Schedule::empty(b.net.clone());
    let mut ids = Vec::new();
    for p in &paths {
        let (s2, id) = s.spawn_vehicle_for_path(vt(0), b.nodes(p)).expect("spawn small world");
        s = s2;
        ids.push(id);
    }
    let tours: ImMap<VehicleIdx, Tour> = ids.iter().map(|v| (*v, s.tour_of(*v).unwrap().clone())).collect();
    (ids, tours)
}

struct Dfs<'a> {
    b: &'a Bridge,
    all: &'a [VehicleIdx],
    max_depth: usize,
    sequences: u64,
    nontrivial: u64,
    ops_by_kind: BTreeMap<&'static str, u64>,
    out: &'a mut CaseOut,
    violations: usize,
}

impl<'a> Dfs<'a> {
    fn step(&mut self, w: &World, op: &TOp, path: &mut Vec<String>, reg: Regions, depth: usize) {
        path.push(op.name());
        *self.ops_by_kind.entry(op.kind()).or_default() += 1;
        match guard(|| apply(self.b, w, op)) {
            Err(p) => {
                if self.violations < 20 {
                    self.out.viol("C15", &format!("{}.{}", op.kind(), p.sig()), format!("sequence {:?} panicked: {} at {}", path, p.message, p.location));
                    self.violations += 1;
                }
            }
            Ok(n) => {
                let (f, r) = check(self.b, &n);
                let reg = Regions { empty: reg.empty || r.empty, singleton: reg.singleton || r.singleton, negative: reg.negative || r.negative };
                self.sequences += 1;
                if reg.empty && reg.singleton && reg.negative {
                    self.nontrivial += 1;
                }
                if !f.is_empty() {
                    if self.violations < 20 {
                        for (sig, detail) in f {
                            self.out.viol("C15", &format!("{}.after.{}", sig, op.kind()), format!("after {:?}: {}", path, detail));
                        }
                        if self.out.witness.is_none() {
                            self.out.witness = Some(json!({"instance": "p_trans::small_instance", "sequence": path.clone()}));
                        }
                        self.violations += 1;
                    }
                } else {
                    // batches are judged right after they are applied: try all of them as leaves
                    if !matches!(op, TOp::Batch(_)) && depth < 3 {
                        for o in batch_ops(self.b, &n) {
                            self.step(&n, &o, path, reg, self.max_depth);
                        }
                    }
                    if depth + 1 < self.max_depth {
                        for o in applicable(self.b, &n, self.all) {
                            self.step(&n, &o, path, reg, depth + 1);
                        }
                    }
                }
            }
        }
        path.pop();
    }
}

fn start_worlds(b: &Bridge, ids: &[VehicleIdx], tours: &ImMap<VehicleIdx, Tour>) -> Vec<(String, World)> {
    let mk = |vs: &[VehicleIdx]| World {
        tours: tours.clone(),
        members: vs.iter().copied().collect(),
        tr: Transition::new_fast(vs, tours, &b.net),
    };
    vec![
        ("new_fast(all)".to_string(), mk(ids)),
        ("new_fast([])".to_string(), mk(&[])),
        ("new_fast(first two)".to_string(), mk(&ids[..2])),
        ("new_fast(three)".to_string(), mk(&ids[1..])),
    ]
}

pub fn exhaustive_depth(thorough: bool) -> usize {
    if thorough {
        5
    } else {
        3
    }
}

/// number of (start world, first operation) pairs = cases of the exhaustive part (+1 for the
/// long-cycle case)
pub fn exhaustive_cases() -> u64 {
    let b = Bridge::new(&small_instance()).expect("small instance");
    let (ids, tours) = small_world(&b);
    start_worlds(&b, &ids, &tours).iter().map(|(_, w)| applicable(&b, w, &ids).len() as u64).sum::<u64>() + 1
}

/// seven vehicles in ONE rotation cycle: every 3-opt move (all i<j<k), every pair of them, every
/// move of a vehicle to the end of its own cycle and every removal, judged after each step
fn long_cycle_case(out: &mut CaseOut) {
    // the allowance is tuned so that the counter of the cycle is close to zero: 3-opt moves then
    // cross zero in both directions (improving and worsening)
    let base = {
        let b = Bridge::new(&small_instance_with(0)).expect("small instance");
        long_cycle_world(&b).tr.maintenance_counter()
    };
    // four of the seven vehicles visit the slot
    let a0 = base / 4;
    for allowance in [a0 - 9000, a0 - 3000, a0, a0 + 2000, a0 + 8000, 100000] {
        long_cycle_with(allowance.max(0), out);
    }
    // allowances that make the counter of ONE vehicle exactly zero (tour distance == allowance):
    // the boundary between "starts a cluster" and "is assigned to one" when cycles are rebuilt
    let mut exact: BTreeSet<i64> = BTreeSet::new();
    {
        let b0 = Bridge::new(&small_instance_with(0)).expect("small instance");
        for t in long_cycle_world(&b0).tours.values() {
            exact.insert(t.maintenance_counter());
        }
        let (_, tours) = small_world(&b0);
        for t in tours.values() {
            exact.insert(t.maintenance_counter());
        }
    }
    for allowance in exact.into_iter().filter(|&d| d > 0 && d < 5_000_000) {
        out.count("worlds_with_a_vehicle_counter_of_exactly_zero", 1);
        long_cycle_with(allowance, out);
        let b = Bridge::new(&small_instance_with(allowance)).expect("small instance");
        let (ids, tours) = small_world(&b);
        for (name, w) in start_worlds(&b, &ids, &tours) {
            let (f, _) = check(&b, &w);
            for (sig, detail) in f {
                out.viol("C15", &format!("{}.after.new_fast.exact_zero", sig), format!("allowance {} (= distance of one tour), start world {}: {}", allowance, name, detail));
            }
            if let Ok(w1) = guard(|| apply(&b, &w, &TOp::NewFast)) {
                let (f, _) = check(&b, &w1);
                for (sig, detail) in f {
                    out.viol("C15", &format!("{}.after.new_fast.exact_zero", sig), format!("allowance {}, start world {} rebuilt: {}", allowance, name, detail));
                }
            }
        }
    }
}

fn long_cycle_world(b: &Bridge) -> World {
    let t = |id: &str| N::T(b.inst.trip_by_id[id]);
    let m = N::S(0);
    let paths: Vec<Vec<N>> = vec![
        vec![N::SD(0), t("a"), N::ED(0)],
        vec![N::SD(1), m, t("a"), t("b"), N::ED(0)],
        vec![N::SD(1), t("c"), N::ED(1)],
        vec![N::SD(0), m, t("d"), N::ED(1)],
        vec![N::SD(1), m, t("c"), N::ED(0)],
        vec![N::SD(0), m, t("a"), N::ED(1)],
        vec![N::SD(0), t("d"), N::ED(1)],
    ];
    let mut s = Schedule::empty(b.net.clone());
    let mut ids = Vec::new();
    for p in &paths {
        let (s2, id) = s.spawn_vehicle_for_path(vt(0), b.nodes(p)).expect("spawn long-cycle world");
        s = s2;
        ids.push(id);
    }
    let tours: ImMap<VehicleIdx, Tour> = ids.iter().map(|v| (*v, s.tour_of(*v).unwrap().clone())).collect();
    let mut w = World { tours: tours.clone(), members: [ids[0]].into_iter().collect(), tr: Transition::new_fast(&ids[..1], &tours, &b.net) };
    for v in &ids[1..] {
        w = apply(b, &w, &TOp::AddEnd { v: *v, cycle: 0 });
    }
    w
}

fn long_cycle_with(allowance: i64, out: &mut CaseOut) {
    let b = Bridge::new(&small_instance_with(allowance)).expect("small instance");
    let w = long_cycle_world(&b);
    let ids: Vec<VehicleIdx> = w.tr.get_cycle(0).iter().collect();
    if w.tr.maintenance_counter() <= 0 {
        out.count("long_cycle_worlds_with_counter_le_zero", 1);
    } else {
        out.count("long_cycle_worlds_with_counter_gt_zero", 1);
    }
    let mut sequences = 0u64;
    let mut judge = |w: &World, path: &[String], out: &mut CaseOut| {
        let (f, _) = check(&b, w);
        for (sig, detail) in f {
            out.viol("C15", &format!("{}.long_cycle", sig), format!("after {:?}: {}", path, detail));
        }
    };
    judge(&w, &[format!("seven vehicles in one cycle, allowance {}", allowance)], out);
    let n = ids.len();
    let mut triples = Vec::new();
    for i in 0..n - 2 {
        for j in i + 1..n - 1 {
            for k in j + 1..n {
                triples.push(TOp::ThreeOpt { cycle: 0, i, j, k });
            }
        }
    }
    let mut firsts: Vec<TOp> = triples.clone();
    for v in &ids {
        firsts.push(TOp::Move { v: *v, cycle: 0 });
        firsts.push(TOp::Remove { v: *v });
        firsts.push(TOp::UpdateEnd { v: *v, depot: 1 });
    }
    for o1 in &firsts {
        let w1 = match guard(|| apply(&b, &w, o1)) {
            Ok(x) => x,
            Err(p) => {
                out.viol("C15", &format!("{}.{}.long_cycle", o1.kind(), p.sig()), format!("{} panicked: {}", o1.name(), p.message));
                continue;
            }
        };
        sequences += 1;
        if (w1.tr.maintenance_counter() > 0) != (w.tr.maintenance_counter() > 0) {
            out.count("long_cycle_moves_crossing_zero", 1);
        }
        judge(&w1, &[o1.name()], out);
        if out.viols.len() > 20 {
            break;
        }
        // second step: every 3-opt move that is applicable now
        let len = w1.tr.get_cycle(0).len();
        for o2 in &triples {
            if let TOp::ThreeOpt { k, .. } = o2 {
                if *k >= len {
                    continue;
                }
            }
            match guard(|| apply(&b, &w1, o2)) {
                Ok(w2) => {
                    sequences += 1;
                    judge(&w2, &[o1.name(), o2.name()], out);
                }
                Err(p) => out.viol("C15", &format!("{}.{}.long_cycle", o2.kind(), p.sig()), format!("{} after {} panicked: {}", o2.name(), o1.name(), p.message)),
            }
        }
    }
    out.count("long_cycle_sequences", sequences);
    out.nontrivial_extra += sequences;
}

fn exhaustive_case(ctx: &Ctx, idx: u64, out: &mut CaseOut) {
    if idx + 1 == exhaustive_cases() {
        long_cycle_case(out);
        return;
    }
    let b = Bridge::new(&small_instance()).expect("small instance");
    let (ids, tours) = small_world(&b);
    let mut k = idx;
    for (name, w) in start_worlds(&b, &ids, &tours) {
        let ops = applicable(&b, &w, &ids);
        if (k as usize) < ops.len() {
            let (f0, r0) = check(&b, &w);
            for (sig, detail) in f0 {
                out.viol("C15", &format!("{}.after.new_fast", sig), format!("start world {}: {}", name, detail));
            }
            let mut dfs = Dfs {
                b: &b,
                all: &ids,
                max_depth: exhaustive_depth(ctx.thorough()),
                sequences: 0,
                nontrivial: 0,
                ops_by_kind: BTreeMap::new(),
                out,
                violations: 0,
            };
            let mut path = vec![name.clone()];
            let op = ops[k as usize].clone();
            dfs.step(&w, &op, &mut path, r0, 0);
            let (seq, nt, kinds) = (dfs.sequences, dfs.nontrivial, dfs.ops_by_kind.clone());
            out.count("exhaustive_sequences", seq);
            out.nontrivial_extra += nt;
            out.count("sequences_through_empty_singleton_and_negative", nt);
            for (kind, n) in kinds {
                out.count(&format!("ops.{}", kind), n);
            }
            return;
        }
        k -= ops.len() as u64;
    }
}

fn random_case(ctx: &Ctx, idx: u64, out: &mut CaseOut) {
    let mut rng = Rng::new(mix(&[ctx.seed, hash_str("trans"), idx]));
    let profile = *rng.pick(&[Profile::Maint, Profile::Maint, Profile::Depots, Profile::Mixed, Profile::NonMetric]);
    let mut opts = GenOpts::new(profile, if ctx.thorough() { 10 } else { 6 });
    opts.force_slots = true;
    opts.rotation_rich = rng.chance(1, 2);
    let tag = format!("r{}c{}", ctx.seed, idx);
    let mut input = gen::generate(&mut rng, &opts, &tag);
    let mut b = Bridge::new(&input).expect("bridge");
    // a quarter of the instances: the allowance equals the distance of one maintenance-visiting
    // tour of the start solution, so that this vehicle's counter is exactly zero
    if rng.chance(1, 4) {
        let net = b.net.clone();
        if let Ok(start) = guard(|| MinCostFlowSolver::initialize(net.clone()).solve()) {
            let allowance = b.inst.max_dist as i64;
            let cands: Vec<i64> = start
                .vehicles_iter_all()
                .filter_map(|v| start.tour_of(v).ok())
                .filter(|t| t.visits_maintenance())
                .map(|t| t.maintenance_counter() + allowance)
                .filter(|&d| d > 0 && d < 5_000_000)
                .collect();
            if !cands.is_empty() {
                let d = *rng.pick(&cands);
                input["parameters"]["maintenance"] = json!({ "maximalDistance": d });
                b = Bridge::new(&input).expect("bridge");
                out.count("instances_with_allowance_equal_to_a_tour_distance", 1);
            }
        }
    }
    let inst = &b.inst;
    out.count(&format!("profile.{}", profile.name()), 1);

    // ---- (c) transitions of the pipeline and the optimiser
    let net = b.net.clone();
    if let Ok(start) = guard(|| MinCostFlowSolver::initialize(net.clone()).solve().improve_depots(None)) {
        let solver = guard(|| build_transition_local_search_solver(&start, net.clone()));
        for t in 0..inst.types.len() {
            let vs: Vec<VehicleIdx> = start.vehicles_iter(vt(t)).collect();
            let tours: ImMap<VehicleIdx, Tour> = vs.iter().map(|v| (*v, start.tour_of(*v).unwrap().clone())).collect();
            let tr = start.next_day_transition_of(vt(t)).clone();
            let w = World { tours: tours.clone(), members: vs.iter().copied().collect(), tr: tr.clone() };
            let (f, _) = check(&b, &w);
            for (sig, detail) in f {
                out.viol("C15", &format!("{}.in_pipeline", sig), format!("start solution, type {}: {}", inst.types[t].id, detail));
            }
            out.count("pipeline_transitions_checked", 1);
            if let Ok(solver) = &solver {
                match guard(|| solver.solve(TransitionWithInfo::new(tr.clone(), "initial".to_string())).unwrap().unwrap_transition()) {
                    Err(p) => {
                        out.viol("C15", &format!("optimiser.{}", p.sig()), format!("transition optimisation panicked: {} at {}", p.message, p.location));
                    }
                    Ok(opt) => {
                        let w2 = World { tours: tours.clone(), members: vs.iter().copied().collect(), tr: opt.clone() };
                        let (f, _) = check(&b, &w2);
                        for (sig, detail) in f {
                            out.viol("C15", &format!("{}.after.optimiser", sig), format!("type {}: {}", inst.types[t].id, detail));
                        }
                        let before = (tr.maintenance_violation(), tr.maintenance_counter());
                        let after = (opt.maintenance_violation(), opt.maintenance_counter());
                        if after > before {
                            out.viol("C15", "optimiser.worsens", format!("type {}: (violation, counter) {:?} -> {:?}", inst.types[t].id, before, after));
                        }
                        out.count("optimiser_runs", 1);
                        out.count("optimiser_improved", (after < before) as u64);
                        if after < before {
                            out.nontrivial.push(format!("{}|opt|{}", tag, t));
                        }
                    }
                }
            }
        }
    } else {
        out.inconclusive.push("start solution could not be built".to_string());
    }

    // ---- (b) random operation sequences on up to 12 vehicles of one type
    let t = rng.usize(0, inst.types.len() - 1);
    let nd = inst.depots.len();
    let mut s = Schedule::empty(b.net.clone());
    let mut ids: Vec<VehicleIdx> = Vec::new();
    for _ in 0..rng.usize(3, 12) {
        let chain = random_path(&mut rng, inst, t, 4);
        if chain.is_empty() {
            continue;
        }
        let mut nodes = vec![N::SD(rng.usize(0, nd - 1))];
        nodes.extend(chain);
        nodes.push(N::ED(rng.usize(0, nd - 1)));
        if let Ok(Ok((s2, id))) = guard(|| s.spawn_vehicle_for_path(vt(t), b.nodes(&nodes))) {
            s = s2;
            ids.push(id);
        }
    }
    if ids.len() < 2 {
        return;
    }
    let tours: ImMap<VehicleIdx, Tour> = ids.iter().map(|v| (*v, s.tour_of(*v).unwrap().clone())).collect();
    let first = rng.usize(0, ids.len());
    let mut w = World {
        tours: tours.clone(),
        members: ids[..first].iter().copied().collect(),
        tr: Transition::new_fast(&ids[..first], &tours, &b.net),
    };
    let n_ops = if ctx.thorough() { rng.usize(100, 300) } else { rng.usize(50, 120) };
    let mut seq: Vec<String> = Vec::new();
    let mut reg = Regions::default();
    for _ in 0..n_ops {
        let ops = applicable(&b, &w, &ids);
        // bias away from new_fast and three_opt floods
        let op = loop {
            if w.members.len() >= 2 && rng.chance(1, 6) {
                // a batch of 2-4 distinct vehicles
                let mut ms: Vec<VehicleIdx> = w.members.iter().copied().collect();
                rng.shuffle(&mut ms);
                ms.truncate(rng.usize(2, ms.len().min(4)));
                let subs: Vec<TOp> = ms
                    .iter()
                    .map(|&v| match rng.below(5) {
                        0 => TOp::Remove { v },
                        1 | 2 => TOp::UpdateStart { v, depot: rng.usize(0, nd - 1) },
                        _ => TOp::UpdateEnd { v, depot: rng.usize(0, nd - 1) },
                    })
                    .collect();
                break TOp::Batch(subs);
            }
            let o = rng.pick(&ops).clone();
            match o {
                TOp::NewFast if !rng.chance(1, 10) => continue,
                TOp::ThreeOpt { .. } if !rng.chance(1, 3) => continue,
                _ => break o,
            }
        };
        seq.push(op.name());
        match guard(|| apply(&b, &w, &op)) {
            Err(p) => {
                out.viol("C15", &format!("{}.{}", op.kind(), p.sig()), format!("random sequence panicked: {} at {}", p.message, p.location));
                out.witness = Some(json!({"input": input, "sequence": seq}));
                break;
            }
            Ok(n) => {
                let (f, r) = check(&b, &n);
                reg = Regions { empty: reg.empty || r.empty, singleton: reg.singleton || r.singleton, negative: reg.negative || r.negative };
                out.count("random_ops", 1);
                out.count(&format!("ops.{}", op.kind()), 1);
                if !f.is_empty() {
                    for (sig, detail) in f {
                        out.viol("C15", &format!("{}.after.{}", sig, op.kind()), format!("random sequence of {} ops: {}", seq.len(), detail));
                    }
                    out.witness = Some(json!({"input": input, "vehicles": ids.iter().map(|v| json!({"id": v.to_string(), "tour": b.ids(&TourObs::of(&b, tours.get(v).unwrap(), Some(t)).nodes)})).collect::<Vec<_>>(), "sequence": seq}));
                    break;
                }
                w = n;
            }
        }
    }
    if reg.empty && reg.singleton && reg.negative {
        out.nontrivial.push(format!("{}|seq", tag));
    }
    out.count("random_sequences", 1);
}

pub fn case(ctx: &Ctx, idx: u64) -> CaseOut {
    let mut out = CaseOut::default();
    let ex = exhaustive_cases();
    if idx < ex {
        crate::orch::announce_cpu_budget(if ctx.thorough() { 7200.0 } else { 600.0 });
        exhaustive_case(ctx, idx, &mut out);
    } else {
        random_case(ctx, idx, &mut out);
    }
    if idx % 31 == 0 {
        out.sample = Some(json!({"case": idx, "kind": if idx < ex { "exhaustive subtree (start world, first operation)" } else { "random instance: pipeline transitions + optimiser + random operation sequence" }, "counters": out.counters}));
    }
    out
}
