//! Small deterministic PRNG (splitmix64 seeding + xoshiro256**), no external crates.

#[derive(Clone, Debug)]
pub struct Rng {
    s: [u64; 4],
}

fn splitmix(x: &mut u64) -> u64 {
    *x = x.wrapping_add(0x9E3779B97F4A7C15);
    let mut z = *x;
    z = (z ^ (z >> 30)).wrapping_mul(0xBF58476D1CE4E5B9);
    z = (z ^ (z >> 27)).wrapping_mul(0x94D049BB133111EB);
    z ^ (z >> 31)
}

/// mix several integers into one seed
pub fn mix(parts: &[u64]) -> u64 {
    let mut h = 0x243F6A8885A308D3u64;
    for &p in parts {
        let mut x = h ^ p;
        h = splitmix(&mut x);
    }
    h
}

pub fn hash_str(s: &str) -> u64 {
    let mut h = 0xcbf29ce484222325u64;
    for b in s.bytes() {
        h ^= b as u64;
        h = h.wrapping_mul(0x100000001b3);
    }
    h
}

impl Rng {
    pub fn new(seed: u64) -> Rng {
        let mut x = seed;
        Rng {
            s: [
                splitmix(&mut x),
                splitmix(&mut x),
                splitmix(&mut x),
                splitmix(&mut x),
            ],
        }
    }
    pub fn next(&mut self) -> u64 {
        let r = self.s[1].wrapping_mul(5).rotate_left(7).wrapping_mul(9);
        let t = self.s[1] << 17;
        self.s[2] ^= self.s[0];
        self.s[3] ^= self.s[1];
        self.s[1] ^= self.s[2];
        self.s[0] ^= self.s[3];
        self.s[2] ^= t;
        self.s[3] = self.s[3].rotate_left(45);
        r
    }
    /// uniform in [0, n)
    pub fn below(&mut self, n: u64) -> u64 {
        if n == 0 {
            return 0;
        }
        self.next() % n
    }
    /// uniform in [lo, hi]
    pub fn range(&mut self, lo: i64, hi: i64) -> i64 {
        if hi <= lo {
            return lo;
        }
        lo + self.below((hi - lo + 1) as u64) as i64
    }
    pub fn usize(&mut self, lo: usize, hi: usize) -> usize {
        self.range(lo as i64, hi as i64) as usize
    }
    /// true with probability num/den
    pub fn chance(&mut self, num: u64, den: u64) -> bool {
        self.below(den) < num
    }
    pub fn pick<'a, T>(&mut self, v: &'a [T]) -> &'a T {
        &v[self.below(v.len() as u64) as usize]
    }
    pub fn shuffle<T>(&mut self, v: &mut [T]) {
        for i in (1..v.len()).rev() {
            let j = self.below(i as u64 + 1) as usize;
            v.swap(i, j);
        }
    }
}
