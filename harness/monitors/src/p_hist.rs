//! C09, C10, C13 (and the schedule-level part of C12): random modification histories over
//! the public modification API of `Schedule`, judged after every operation.

use crate::bridge::{check_caches, check_structure, vt, Bridge, Obs, TourObs};
use crate::gen::{self, GenOpts, Profile};
use crate::orch::{guard, CaseOut, Ctx, PanicInfo};
use crate::rng::{hash_str, mix, Rng};
use model::base_types::{VehicleIdx, VehicleTypeIdx};
use refmodel::tourref::{self, RemoveResult};
use refmodel::{Inst, N};
use serde_json::{json, Value};
use solution::path::Path;
use solution::segment::Segment;
use solution::transition::Transition;
use solution::Schedule;
use solver::min_cost_flow_solver::MinCostFlowSolver;
use std::collections::{BTreeMap, BTreeSet};

#[derive(Clone, Debug)]
pub enum Op {
    Spawn { vtype: usize, path: Vec<N> },
    SpawnReplaceDummy { dummy: VehicleIdx, vtype: usize },
    ReplaceByDummy { v: VehicleIdx },
    AddPath { v: VehicleIdx, path: Vec<N> },
    RemoveSegment { v: VehicleIdx, i: usize, j: usize },
    Fit { p: VehicleIdx, r: VehicleIdx, i: usize, j: usize },
    Override { p: VehicleIdx, r: VehicleIdx, i: usize, j: usize },
    ImproveDepots { vs: Option<Vec<VehicleIdx>> },
    EndDepotsGreedy,
    EndDepotsConsistent,
    RecomputeTransitions { types: Option<Vec<usize>> },
    SetTransitions { moves: Vec<(usize, VehicleIdx, usize)> },
}

impl Op {
    pub fn kind(&self) -> &'static str {
        match self {
            Op::Spawn { .. } => "spawn_vehicle_for_path",
            Op::SpawnReplaceDummy { .. } => "spawn_vehicle_to_replace_dummy_tour",
            Op::ReplaceByDummy { .. } => "replace_vehicle_by_dummy",
            Op::AddPath { .. } => "add_path_to_vehicle_tour",
            Op::RemoveSegment { .. } => "remove_segment",
            Op::Fit { .. } => "fit_reassign",
            Op::Override { .. } => "override_reassign",
            Op::ImproveDepots { .. } => "improve_depots",
            Op::EndDepotsGreedy => "reassign_end_depots_greedily",
            Op::EndDepotsConsistent => "reassign_end_depots_consistent_with_transitions",
            Op::RecomputeTransitions { .. } => "recompute_transitions_for",
            Op::SetTransitions { .. } => "set_next_day_transitions",
        }
    }
    pub fn to_json(&self, b: &Bridge, before: &Obs) -> Value {
        let seg = |v: &VehicleIdx, i: usize, j: usize| -> Value {
            let t = tour_of(before, *v);
            json!([t.map(|t| b.inst.node_id(t.nodes[i])), t.map(|t| b.inst.node_id(t.nodes[j]))])
        };
        match self {
            Op::Spawn { vtype, path } => json!({"op": self.kind(), "type": b.inst.types[*vtype].id, "path": b.ids(path)}),
            Op::SpawnReplaceDummy { dummy, vtype } => json!({"op": self.kind(), "dummy": dummy.to_string(), "type": b.inst.types[*vtype].id}),
            Op::ReplaceByDummy { v } => json!({"op": self.kind(), "vehicle": v.to_string()}),
            Op::AddPath { v, path } => json!({"op": self.kind(), "vehicle": v.to_string(), "path": b.ids(path)}),
            Op::RemoveSegment { v, i, j } => json!({"op": self.kind(), "vehicle": v.to_string(), "segment": seg(v, *i, *j)}),
            Op::Fit { p, r, i, j } | Op::Override { p, r, i, j } => {
                json!({"op": self.kind(), "provider": p.to_string(), "receiver": r.to_string(), "segment": seg(p, *i, *j)})
            }
            Op::ImproveDepots { vs } => json!({"op": self.kind(), "vehicles": vs.as_ref().map(|v| v.iter().map(|x| x.to_string()).collect::<Vec<_>>())}),
            Op::RecomputeTransitions { types } => json!({"op": self.kind(), "types": types}),
            Op::SetTransitions { moves } => json!({"op": self.kind(), "moves": moves.iter().map(|(t, v, c)| json!([t, v.to_string(), c])).collect::<Vec<_>>()}),
            _ => json!({"op": self.kind()}),
        }
    }
}

pub fn tour_of<'a>(o: &'a Obs, v: VehicleIdx) -> Option<&'a TourObs> {
    o.vehicles.get(&v).or_else(|| o.dummies.get(&v))
}

pub enum Applied {
    Ok {
        s: Schedule,
        new_id: Option<VehicleIdx>,
        conflict: Option<Option<Vec<N>>>,
        /// for set_next_day_transitions: the transitions that were handed in
        given_transitions: Option<Vec<crate::bridge::TransObs>>,
    },
    Err(String),
    Panic(PanicInfo),
    /// the harness could not build the arguments (e.g. Path::new refused a model-valid path)
    Unbuildable(String),
}

pub fn random_path(rng: &mut Rng, inst: &Inst, vtype: usize, max_len: usize) -> Vec<N> {
    let mut acts = inst.activities_of_type(vtype);
    if acts.is_empty() {
        return Vec::new();
    }
    rng.shuffle(&mut acts);
    let take = rng.usize(1, acts.len().min(max_len.max(1)));
    let mut chosen: Vec<N> = acts.into_iter().take(take * 2).collect();
    chosen.sort_by_key(|&n| (inst.start(n), inst.end(n), n));
    let mut path: Vec<N> = Vec::new();
    for n in chosen {
        if path.len() >= take {
            break;
        }
        match path.last() {
            None => path.push(n),
            Some(&l) => {
                if inst.connectable(l, n) {
                    path.push(n);
                }
            }
        }
    }
    path
}

fn with_depots(rng: &mut Rng, inst: &Inst, mut path: Vec<N>, allow: bool) -> Vec<N> {
    if !allow || path.is_empty() {
        return path;
    }
    let nd = inst.depots.len();
    match rng.below(6) {
        0 => path.insert(0, N::SD(rng.usize(0, nd - 1))),
        1 => path.push(N::ED(rng.usize(0, nd - 1))),
        2 => {
            path.insert(0, N::SD(rng.usize(0, nd - 1)));
            path.push(N::ED(rng.usize(0, nd - 1)));
        }
        _ => {}
    }
    path
}

/// pick the next operation from the current state
pub fn pick_op(rng: &mut Rng, b: &Bridge, o: &Obs) -> Option<Op> {
    let inst = &b.inst;
    let reals: Vec<VehicleIdx> = o.vehicles.keys().copied().collect();
    let dummies: Vec<VehicleIdx> = o.dummies.keys().copied().collect();
    let all: Vec<VehicleIdx> = reals.iter().chain(dummies.iter()).copied().collect();
    for _ in 0..20 {
        let choice = rng.below(100);
        let op = match choice {
            0..=17 => {
                let t = rng.usize(0, inst.types.len() - 1);
                // sometimes the wrong type on purpose (documented Err)
                let pt = if rng.chance(1, 10) { rng.usize(0, inst.types.len() - 1) } else { t };
                let path = random_path(rng, inst, pt, 4);
                if path.is_empty() {
                    continue;
                }
                Op::Spawn { vtype: t, path: with_depots(rng, inst, path, true) }
            }
            18..=23 => {
                if dummies.is_empty() {
                    continue;
                }
                let d = *rng.pick(&dummies);
                let first = o.dummies[&d].nodes[0];
                let t = if rng.chance(1, 8) { rng.usize(0, inst.types.len() - 1) } else { inst.type_of(first).unwrap_or(0) };
                Op::SpawnReplaceDummy { dummy: d, vtype: t }
            }
            24..=29 => {
                if reals.is_empty() {
                    continue;
                }
                Op::ReplaceByDummy { v: *rng.pick(&reals) }
            }
            30..=41 => {
                if reals.is_empty() {
                    continue;
                }
                let v = *rng.pick(&reals);
                let t = o.vehicles[&v].vtype.unwrap_or(0);
                let pt = if rng.chance(1, 12) { rng.usize(0, inst.types.len() - 1) } else { t };
                let path = random_path(rng, inst, pt, 3);
                if path.is_empty() {
                    continue;
                }
                Op::AddPath { v, path: with_depots(rng, inst, path, true) }
            }
            42..=49 => {
                if reals.is_empty() {
                    continue;
                }
                let v = *rng.pick(&reals);
                let (i, j) = pick_segment(rng, &o.vehicles[&v]);
                Op::RemoveSegment { v, i, j }
            }
            50..=75 => {
                if all.len() < 2 {
                    continue;
                }
                let p = *rng.pick(&all);
                let r = *rng.pick(&all);
                if p == r {
                    continue;
                }
                let (i, j) = pick_segment(rng, tour_of(o, p).unwrap());
                if rng.chance(1, 2) {
                    Op::Override { p, r, i, j }
                } else {
                    Op::Fit { p, r, i, j }
                }
            }
            76..=81 => {
                if reals.is_empty() {
                    continue;
                }
                if rng.chance(1, 3) {
                    Op::ImproveDepots { vs: None }
                } else {
                    let k = rng.usize(1, reals.len().min(3));
                    let mut vs = reals.clone();
                    rng.shuffle(&mut vs);
                    vs.truncate(k);
                    Op::ImproveDepots { vs: Some(vs) }
                }
            }
            82..=84 => Op::EndDepotsGreedy,
            85..=89 => Op::EndDepotsConsistent,
            90..=93 => {
                if rng.chance(1, 2) {
                    Op::RecomputeTransitions { types: None }
                } else {
                    let t = rng.usize(0, inst.types.len() - 1);
                    Op::RecomputeTransitions { types: Some(vec![t]) }
                }
            }
            _ => {
                // move vehicles between cycles of their type
                let mut moves = Vec::new();
                for _ in 0..rng.usize(1, 3) {
                    if reals.is_empty() {
                        break;
                    }
                    let v = *rng.pick(&reals);
                    let t = o.vehicles[&v].vtype.unwrap_or(0);
                    let nc = o.transitions[t].cycles.len();
                    if nc == 0 {
                        continue;
                    }
                    moves.push((t, v, rng.usize(0, nc - 1)));
                }
                if moves.is_empty() {
                    continue;
                }
                Op::SetTransitions { moves }
            }
        };
        return Some(op);
    }
    None
}

/// positions (i, j) in the tour; endpoints are activities or the tour's own depots
pub fn pick_segment(rng: &mut Rng, t: &TourObs) -> (usize, usize) {
    let n = t.nodes.len();
    if t.is_dummy || n < 3 {
        let i = rng.usize(0, n - 1);
        let j = rng.usize(i, n - 1);
        return (i, j);
    }
    let i = rng.usize(1, n - 2);
    let j = rng.usize(i, n - 2);
    match rng.below(10) {
        0 => (0, j),
        1 => (i, n - 1),
        2 => (0, n - 1),
        3 => (1, n - 2),
        _ => (i, j),
    }
}

pub fn apply(b: &Bridge, s: &Schedule, before: &Obs, op: &Op) -> Applied {
    let net = b.net.clone();
    let seg_of = |v: &VehicleIdx, i: usize, j: usize| -> Segment {
        let t = tour_of(before, *v).unwrap();
        Segment::new(b.idx(t.nodes[i]), b.idx(t.nodes[j]))
    };
    let conv = |p: &Path| -> Vec<N> { p.iter().map(|n| b.n(n)).collect() };
    let r = guard(|| -> Applied {
        match op {
            Op::Spawn { vtype, path } => match s.spawn_vehicle_for_path(vt(*vtype), b.nodes(path)) {
                Ok((s2, id)) => Applied::Ok { s: s2, new_id: Some(id), conflict: None, given_transitions: None },
                Err(e) => Applied::Err(e),
            },
            Op::SpawnReplaceDummy { dummy, vtype } => match s.spawn_vehicle_to_replace_dummy_tour(*dummy, vt(*vtype)) {
                Ok((s2, id)) => Applied::Ok { s: s2, new_id: Some(id), conflict: None, given_transitions: None },
                Err(e) => Applied::Err(e),
            },
            Op::ReplaceByDummy { v } => match s.replace_vehicle_by_dummy(*v) {
                Ok(s2) => Applied::Ok { s: s2, new_id: None, conflict: None, given_transitions: None },
                Err(e) => Applied::Err(e),
            },
            Op::AddPath { v, path } => {
                let p = match Path::new(b.nodes(path), net.clone()) {
                    Ok(Some(p)) => p,
                    Ok(None) => return Applied::Unbuildable("path without activity".into()),
                    Err(e) => return Applied::Unbuildable(format!("Path::new refused a path that is valid by the timing rule: {}", e)),
                };
                match s.add_path_to_vehicle_tour(*v, p) {
                    Ok((s2, c)) => Applied::Ok { s: s2, new_id: None, conflict: Some(c.as_ref().map(conv)), given_transitions: None },
                    Err(e) => Applied::Err(e),
                }
            }
            Op::RemoveSegment { v, i, j } => match s.remove_segment(seg_of(v, *i, *j), *v) {
                Ok(s2) => Applied::Ok { s: s2, new_id: None, conflict: None, given_transitions: None },
                Err(e) => Applied::Err(e),
            },
            Op::Fit { p, r, i, j } => match s.fit_reassign(seg_of(p, *i, *j), *p, *r) {
                Ok(s2) => Applied::Ok { s: s2, new_id: None, conflict: None, given_transitions: None },
                Err(e) => Applied::Err(e),
            },
            Op::Override { p, r, i, j } => match s.override_reassign(seg_of(p, *i, *j), *p, *r) {
                Ok((s2, d)) => Applied::Ok { s: s2, new_id: d, conflict: None, given_transitions: None },
                Err(e) => Applied::Err(e),
            },
            Op::ImproveDepots { vs } => Applied::Ok { s: s.improve_depots(vs.clone()), new_id: None, conflict: None, given_transitions: None },
            Op::EndDepotsGreedy => match s.reassign_end_depots_greedily() {
                Ok(s2) => Applied::Ok { s: s2, new_id: None, conflict: None, given_transitions: None },
                Err(e) => Applied::Err(e),
            },
            Op::EndDepotsConsistent => Applied::Ok { s: s.reassign_end_depots_consistent_with_transitions(), new_id: None, conflict: None, given_transitions: None },
            Op::RecomputeTransitions { types } => Applied::Ok {
                s: s.recompute_transitions_for(types.as_ref().map(|v| v.iter().map(|&t| vt(t)).collect())),
                new_id: None,
                conflict: None,
                given_transitions: None,
            },
            Op::SetTransitions { moves } => {
                let mut map: im::HashMap<VehicleTypeIdx, Transition> = im::HashMap::new();
                for t in 0..b.inst.types.len() {
                    map.insert(vt(t), s.next_day_transition_of(vt(t)).clone());
                }
                for (t, v, c) in moves {
                    let cur = map.get(&vt(*t)).unwrap().clone();
                    let moved = cur.move_vehicle(*v, *c, s.get_tours(), &net);
                    map.insert(vt(*t), moved);
                }
                let given: Vec<crate::bridge::TransObs> = (0..b.inst.types.len()).map(|t| crate::bridge::TransObs::of(map.get(&vt(t)).unwrap())).collect();
                Applied::Ok { s: s.set_next_day_transitions(map), new_id: None, conflict: None, given_transitions: Some(given) }
            }
        }
    });
    match r {
        Ok(a) => a,
        Err(p) => Applied::Panic(p),
    }
}

fn acts(t: &TourObs) -> Vec<N> {
    t.activities()
}

fn without(form: &[VehicleIdx], v: VehicleIdx) -> Vec<VehicleIdx> {
    form.iter().copied().filter(|x| *x != v).collect()
}

/// relational oracle for one applied operation (C13, plus C12 for the tour semantics)
pub fn judge(
    b: &Bridge,
    op: &Op,
    before: &Obs,
    after: &Obs,
    new_id: Option<VehicleIdx>,
    conflict: &Option<Option<Vec<N>>>,
    given_transitions: &Option<Vec<crate::bridge::TransObs>>,
    seen_ids: &BTreeSet<VehicleIdx>,
    out: &mut CaseOut,
) {
    let inst = &b.inst;
    let mut v13 = |sig: &str, detail: String| out.viol("C13", sig, format!("{}: {}", op.kind(), detail));
    // vehicles whose tours may change, and nodes whose formations may change
    let mut touched_v: BTreeSet<VehicleIdx> = BTreeSet::new();
    let mut touched_n: BTreeSet<N> = BTreeSet::new();
    let mut depot_only = false;
    let mut c12: Vec<(String, String)> = Vec::new();

    let new_vehicles: Vec<VehicleIdx> = after.vehicles.keys().filter(|v| !before.vehicles.contains_key(v)).copied().collect();
    let new_dummies: Vec<VehicleIdx> = after.dummies.keys().filter(|v| !before.dummies.contains_key(v)).copied().collect();
    for id in new_vehicles.iter().chain(new_dummies.iter()) {
        if seen_ids.contains(id) {
            v13("ids.reused", format!("new tour got the id {} which was used before in this history", id));
        }
    }
    let service_only = |nodes: &[N]| -> Vec<N> { nodes.iter().copied().filter(|n| matches!(n, N::T(_))).collect() };
    // expectation helper: exactly one new dummy carrying `trips` (or none if empty); `alt` is a
    // second acceptable content (corner case: the receiver already served some of the moved nodes)
    let mut expect_new_dummy = |trips: Vec<N>, alt: Option<Vec<N>>, returned: Option<Option<VehicleIdx>>, v13: &mut dyn FnMut(&str, String)| {
        let acceptable = |content: &Vec<N>| -> bool { *content == trips || alt.as_ref().map(|a| a == content).unwrap_or(false) };
        let none_ok = trips.is_empty() || alt.as_ref().map(|a| a.is_empty()).unwrap_or(false);
        if new_dummies.is_empty() {
            if !none_ok {
                v13(
                    "dummy.not_exactly_one",
                    format!("displaced service trips {:?} should be in one new dummy tour, but no dummy was created", b.ids(&trips)),
                );
            }
            if let Some(Some(r)) = returned {
                v13("dummy.returned_without_need", format!("returned dummy {} although no dummy was created", r));
            }
            return;
        }
        if new_dummies.len() != 1 {
            v13(
                "dummy.not_exactly_one",
                format!("displaced service trips {:?} should be in one new dummy tour, new dummies: {:?}", b.ids(&trips), new_dummies),
            );
            return;
        }
        let d = new_dummies[0];
        if after.dummies[&d].nodes.is_empty() || !acceptable(&after.dummies[&d].nodes) {
            v13(
                if trips.is_empty() && alt.is_none() { "dummy.unexpected" } else { "dummy.wrong_content" },
                format!("new dummy {} holds {:?}, displaced service trips are {:?}", d, b.ids(&after.dummies[&d].nodes), b.ids(&trips)),
            );
        }
        if let Some(r) = returned {
            if r != Some(d) {
                v13("dummy.returned_id", format!("returned {:?} but the new dummy is {}", r, d));
            }
        }
    };

    match op {
        Op::Spawn { vtype, path } => {
            if new_vehicles.len() != 1 || Some(new_vehicles[0]) != new_id {
                v13("spawn.not_exactly_one_new_vehicle", format!("new vehicles {:?}, returned {:?}", new_vehicles, new_id));
            } else {
                let nv = new_vehicles[0];
                touched_v.insert(nv);
                let t = &after.vehicles[&nv];
                let want: Vec<N> = path.iter().copied().filter(|n| n.is_activity()).collect();
                touched_n.extend(want.iter().copied());
                if acts(t) != want {
                    v13("spawn.activities", format!("path {:?} but the new vehicle drives {:?}", b.ids(path), b.ids(&t.nodes)));
                }
                if t.vtype != Some(*vtype) {
                    v13("spawn.type", format!("asked for type {} got {:?}", vtype, t.vtype));
                }
                let usage = spawn_usage(before);
                if let Some(N::SD(d)) = path.first() {
                    let sd = t.nodes.first().copied();
                    let expected = if depot_available(b, &usage, *d, *vtype) { N::SD(*d) } else { N::SD(inst.overflow()) };
                    if sd != Some(expected) {
                        v13(
                            "spawn.start_depot",
                            format!("given start depot {} (room for the type: {}) but the vehicle starts at {:?}", inst.depots[*d].id, depot_available(b, &usage, *d, *vtype), sd.map(|n| inst.node_id(n))),
                        );
                    }
                } else if let (Some(N::SD(d)), Some(first)) = (t.nodes.first(), want.first()) {
                    // documented: spawned from the nearest available depot
                    if let Err(e) = is_nearest_available_start(b, &usage, *vtype, *first, *d) {
                        v13("spawn.not_nearest_available_start_depot", e);
                    }
                }
                if !matches!(path.last(), Some(N::ED(_))) && !matches!(path.first(), Some(N::SD(_))) {
                    if let (Some(N::ED(d)), Some(last)) = (t.nodes.last(), want.last()) {
                        if let Err(e) = is_nearest_end(inst, *last, *d) {
                            v13("spawn.not_nearest_end_depot", e);
                        }
                    }
                }
                for n in &want {
                    let bf = &before.formations[n];
                    let af = &after.formations[n];
                    let mut exp = bf.clone();
                    exp.push(nv);
                    if *af != exp {
                        v13("formation.addition_not_at_tail", format!("{}: before {:?} after {:?}", inst.node_id(*n), bf, af));
                    }
                }
            }
            if !new_dummies.is_empty() {
                v13("dummy.unexpected", format!("spawn created dummies {:?}", new_dummies));
            }
        }
        Op::SpawnReplaceDummy { dummy, vtype } => {
            touched_v.insert(*dummy);
            if after.dummies.contains_key(dummy) {
                v13("spawn_replace.dummy_still_there", format!("{}", dummy));
            }
            if new_vehicles.len() != 1 || Some(new_vehicles[0]) != new_id {
                v13("spawn.not_exactly_one_new_vehicle", format!("new vehicles {:?}, returned {:?}", new_vehicles, new_id));
            } else {
                let nv = new_vehicles[0];
                touched_v.insert(nv);
                let want = before.dummies[dummy].nodes.clone();
                touched_n.extend(want.iter().copied());
                if acts(&after.vehicles[&nv]) != want || after.vehicles[&nv].vtype != Some(*vtype) {
                    v13("spawn_replace.activities", format!("dummy {:?} became {:?}", b.ids(&want), b.ids(&after.vehicles[&nv].nodes)));
                }
                for n in &want {
                    let mut exp = before.formations[n].clone();
                    exp.push(nv);
                    if after.formations[n] != exp {
                        v13("formation.addition_not_at_tail", format!("{}: before {:?} after {:?}", inst.node_id(*n), before.formations[n], after.formations[n]));
                    }
                }
            }
        }
        Op::ReplaceByDummy { v } => {
            touched_v.insert(*v);
            let old = &before.vehicles[v];
            touched_n.extend(acts(old));
            if after.vehicles.contains_key(v) {
                v13("delete.vehicle_still_there", format!("{}", v));
            }
            expect_new_dummy(service_only(&old.nodes), None, None, &mut v13);
            for n in acts(old) {
                if after.formations[&n] != without(&before.formations[&n], *v) {
                    v13("formation.removal_changes_order", format!("{}: before {:?} after {:?}", inst.node_id(n), before.formations[&n], after.formations[&n]));
                }
            }
        }
        Op::AddPath { v, path } => {
            touched_v.insert(*v);
            let old = &before.vehicles[v];
            let r = tourref::insert(inst, &old.nodes, false, path);
            touched_n.extend(path.iter().copied().filter(|n| n.is_activity()));
            touched_n.extend(r.dropped.iter().copied().filter(|n| n.is_activity()));
            match after.vehicles.get(v) {
                None => v13("add_path.vehicle_vanished", format!("{}", v)),
                Some(t) => {
                    if t.nodes != r.tour {
                        c12.push((
                            "insert.result_tour".into(),
                            format!("tour {:?} + path {:?}: got {:?}, reference {:?}", b.ids(&old.nodes), b.ids(path), b.ids(&t.nodes), b.ids(&r.tour)),
                        ));
                    }
                }
            }
            let dropped_acts: Vec<N> = r.dropped.iter().copied().filter(|n| n.is_activity()).collect();
            if let Some(c) = conflict {
                let got: Vec<N> = c.as_ref().map(|x| x.iter().copied().filter(|n| n.is_activity()).collect()).unwrap_or_default();
                if got != dropped_acts {
                    c12.push((
                        "insert.reported_drop_list".into(),
                        format!("tour {:?} + path {:?}: reported {:?}, reference drops {:?}", b.ids(&old.nodes), b.ids(path), b.ids(&got), b.ids(&dropped_acts)),
                    ));
                }
            }
            if !new_dummies.is_empty() {
                v13("dummy.unexpected", format!("add_path created dummies {:?}", new_dummies));
            }
            // formations
            for n in path.iter().copied().filter(|n| n.is_activity()) {
                let bf = &before.formations[&n];
                let af = &after.formations[&n];
                if bf.contains(v) {
                    let mut a: Vec<_> = af.clone();
                    let mut bb: Vec<_> = bf.clone();
                    a.sort();
                    bb.sort();
                    if a != bb {
                        v13("formation.members", format!("{}: before {:?} after {:?}", inst.node_id(n), bf, af));
                    }
                } else {
                    let mut exp = bf.clone();
                    exp.push(*v);
                    if *af != exp {
                        v13("formation.addition_not_at_tail", format!("{}: before {:?} after {:?}", inst.node_id(n), bf, af));
                    }
                }
            }
            for n in dropped_acts.iter().filter(|n| !path.contains(n)) {
                if after.formations[n] != without(&before.formations[n], *v) {
                    v13("formation.removal_changes_order", format!("{}: before {:?} after {:?}", inst.node_id(*n), before.formations[n], after.formations[n]));
                }
            }
        }
        Op::RemoveSegment { v, i, j } => {
            touched_v.insert(*v);
            let old = &before.vehicles[v];
            match tourref::remove(inst, &old.nodes, false, *i, *j) {
                RemoveResult::Refused(why) => c12.push((
                    "remove.accepted_but_must_be_refused".into(),
                    format!("removing {:?} from {:?} {}", b.ids(&old.nodes[*i..=*j]), b.ids(&old.nodes), why),
                )),
                RemoveResult::Done(rest, removed) => {
                    touched_n.extend(removed.iter().copied().filter(|n| n.is_activity()));
                    match (&rest, after.vehicles.get(v)) {
                        (Some(r), Some(t)) => {
                            if &t.nodes != r {
                                c12.push(("remove.result_tour".into(), format!("got {:?}, reference {:?}", b.ids(&t.nodes), b.ids(r))));
                            }
                        }
                        (None, None) => {}
                        (Some(_), None) => v13("remove.vehicle_vanished", format!("{} still has activities", v)),
                        (None, Some(_)) => v13("remove.empty_vehicle_survives", format!("{} has no activity left but is still there", v)),
                    }
                    let displaced = if rest.is_none() { service_only(&old.nodes) } else { service_only(&removed) };
                    if rest.is_none() {
                        touched_n.extend(acts(old));
                    }
                    expect_new_dummy(displaced, None, None, &mut v13);
                    for n in removed.iter().filter(|n| n.is_activity()) {
                        if after.formations[n] != without(&before.formations[n], *v) {
                            v13("formation.removal_changes_order", format!("{}: before {:?} after {:?}", inst.node_id(*n), before.formations[n], after.formations[n]));
                        }
                    }
                }
            }
        }
        Op::Override { p, r, i, j } | Op::Fit { p, r, i, j } => {
            let is_override = matches!(op, Op::Override { .. });
            touched_v.insert(*p);
            touched_v.insert(*r);
            let pt = tour_of(before, *p).unwrap();
            let rt = tour_of(before, *r).unwrap();
            let seg_nodes: Vec<N> = pt.nodes[*i..=*j].to_vec();
            let p_after = tour_of(after, *p);
            let r_after = tour_of(after, *r);
            let p_after_nodes: Vec<N> = p_after.map(|t| t.nodes.clone()).unwrap_or_default();
            if is_override {
                match tourref::remove(inst, &pt.nodes, pt.is_dummy, *i, *j) {
                    RemoveResult::Refused(why) => c12.push((
                        "remove.accepted_but_must_be_refused".into(),
                        format!("override moved {:?} out of {:?} although that {}", b.ids(&seg_nodes), b.ids(&pt.nodes), why),
                    )),
                    RemoveResult::Done(rest, removed) => {
                        touched_n.extend(removed.iter().copied().filter(|n| n.is_activity()));
                        match (&rest, p_after) {
                            (Some(x), Some(t)) => {
                                if &t.nodes != x {
                                    v13("override.provider_tour", format!("provider {:?} minus {:?}: got {:?}", b.ids(&pt.nodes), b.ids(&removed), b.ids(&t.nodes)));
                                }
                            }
                            (None, None) => {}
                            (Some(_), None) => v13("override.provider_vanished", format!("{} still has activities", p)),
                            (None, Some(_)) => v13("override.empty_provider_survives", format!("{}", p)),
                        }
                        let ins = tourref::insert(inst, &rt.nodes, rt.is_dummy, &removed);
                        touched_n.extend(ins.dropped.iter().copied().filter(|n| n.is_activity()));
                        match r_after {
                            None => v13("override.receiver_vanished", format!("{}", r)),
                            Some(t) => {
                                if t.nodes != ins.tour {
                                    c12.push((
                                        "insert.result_tour".into(),
                                        format!("receiver {:?} + moved {:?}: got {:?}, reference {:?}", b.ids(&rt.nodes), b.ids(&removed), b.ids(&t.nodes), b.ids(&ins.tour)),
                                    ));
                                }
                            }
                        }
                        // trips that the receiver served before and still serves (they are part of the
                        // moved nodes) may or may not be listed in the new dummy: both are accepted
                        let displaced: Vec<N> = service_only(&ins.dropped).into_iter().filter(|n| !ins.inserted.contains(n)).collect();
                        let displaced_all: Vec<N> = service_only(&ins.dropped);
                        expect_new_dummy(displaced, Some(displaced_all), Some(new_id), &mut v13);
                        // formations of moved nodes
                        for n in ins.inserted.iter().copied().filter(|n| n.is_activity()) {
                            check_move_formation(inst, n, *p, *r, before, after, &mut v13);
                        }
                        for n in ins.dropped.iter().copied().filter(|n| n.is_activity() && !ins.inserted.contains(n)) {
                            if r.is_real() && after.formations[&n] != without(&before.formations[&n], *r) {
                                v13("formation.removal_changes_order", format!("{}: before {:?} after {:?}", inst.node_id(n), before.formations[&n], after.formations[&n]));
                            }
                        }
                    }
                }
            } else {
                // fit: which conflict-free part moves is not prescribed
                let moved: Vec<N> = seg_nodes.iter().copied().filter(|n| n.is_activity() && !p_after_nodes.contains(n)).collect();
                touched_n.extend(moved.iter().copied());
                let p_lost: Vec<N> = acts(pt).into_iter().filter(|n| !p_after_nodes.contains(n)).collect();
                if p_lost != moved {
                    v13("fit.provider_lost_other_nodes", format!("provider lost {:?}, segment {:?}", b.ids(&p_lost), b.ids(&seg_nodes)));
                }
                let p_expect: Vec<N> = acts(pt).into_iter().filter(|n| !moved.contains(n)).collect();
                match p_after {
                    Some(t) => {
                        if acts(t) != p_expect {
                            v13("fit.provider_tour", format!("got {:?} expected activities {:?}", b.ids(&t.nodes), b.ids(&p_expect)));
                        }
                    }
                    None => {
                        if !p_expect.is_empty() {
                            v13("fit.provider_vanished", format!("{} still has activities {:?}", p, b.ids(&p_expect)));
                        }
                    }
                }
                if p_after.is_some() && p_expect.is_empty() {
                    v13("fit.empty_provider_survives", format!("{}", p));
                }
                match r_after {
                    None => v13("fit.receiver_vanished", format!("{}", r)),
                    Some(t) => {
                        let ra = acts(t);
                        let mut exp: Vec<N> = acts(rt);
                        for n in &moved {
                            if !exp.contains(n) {
                                exp.push(*n);
                            }
                        }
                        exp.sort_by_key(|&n| (inst.start(n), inst.end(n), n));
                        if ra != exp {
                            v13(
                                "fit.receiver_tour",
                                format!("receiver {:?} + moved {:?}: got {:?}", b.ids(&rt.nodes), b.ids(&moved), b.ids(&t.nodes)),
                            );
                        }
                    }
                }
                if !new_dummies.is_empty() {
                    v13("dummy.unexpected", format!("fit created dummies {:?}", new_dummies));
                }
                for n in moved.iter().copied() {
                    check_move_formation(inst, n, *p, *r, before, after, &mut v13);
                }
            }
        }
        Op::ImproveDepots { vs } => {
            depot_only = true;
            // documented: every considered vehicle gets the nearest start depot that has room (after
            // all considered vehicles were taken out of their depots, in the given order) and the
            // nearest end depot
            let order: Vec<VehicleIdx> = match vs {
                Some(v) => v.clone(),
                None => before.vehicle_listing.iter().flatten().copied().collect(),
            };
            let mut usage = spawn_usage(before);
            for v in &order {
                if let Some(t) = before.vehicles.get(v) {
                    if let (Some(N::SD(d)), Some(ty)) = (t.nodes.first(), t.vtype) {
                        if let Some(c) = usage.get_mut(&(*d, ty)) {
                            *c = c.saturating_sub(1);
                        }
                    }
                }
            }
            for v in &order {
                if let (Some(bt), Some(at)) = (before.vehicles.get(v), after.vehicles.get(v)) {
                    let ty = bt.vtype.unwrap_or(0);
                    let activities = bt.activities();
                    if let (Some(N::SD(d)), Some(first)) = (at.nodes.first(), activities.first()) {
                        if let Err(e) = is_nearest_available_start(b, &usage, ty, *first, *d) {
                            v13("improve_depots.not_nearest_available_start_depot", format!("{}: {}", v, e));
                        }
                        *usage.entry((*d, ty)).or_default() += 1;
                    }
                    if let (Some(N::ED(d)), Some(last)) = (at.nodes.last(), activities.last()) {
                        if let Err(e) = is_nearest_end(inst, *last, *d) {
                            v13("improve_depots.not_nearest_end_depot", format!("{}: {}", v, e));
                        }
                    }
                }
            }
            if let Some(vs) = vs {
                // only the named vehicles may change their depots
                for (v, t) in &before.vehicles {
                    if !vs.contains(v) && after.vehicles.get(v) != Some(t) {
                        v13("frame.other_vehicle_changed", format!("{} was not named but changed", v));
                    }
                }
            }
        }
        Op::EndDepotsGreedy | Op::EndDepotsConsistent => {
            depot_only = true;
            for (v, t) in &before.vehicles {
                if let Some(a) = after.vehicles.get(v) {
                    if a.nodes.first() != t.nodes.first() {
                        v13("end_depots.start_depot_changed", format!("{}", v));
                    }
                }
            }
            if matches!(op, Op::EndDepotsConsistent) {
                for tr in &after.transitions {
                    for c in &tr.cycles {
                        for (k, v) in c.members.iter().enumerate() {
                            let next = c.members[(k + 1) % c.members.len()];
                            if let (Some(a), Some(nx)) = (after.vehicles.get(v), after.vehicles.get(&next)) {
                                let e = match a.nodes.last() {
                                    Some(N::ED(d)) => Some(*d),
                                    _ => None,
                                };
                                let s = match nx.nodes.first() {
                                    Some(N::SD(d)) => Some(*d),
                                    _ => None,
                                };
                                if e != s {
                                    v13("end_depots.not_consistent_with_transition", format!("{} ends at {:?} but successor {} starts at {:?}", v, e, next, s));
                                }
                            }
                        }
                    }
                }
            }
        }
        Op::RecomputeTransitions { .. } | Op::SetTransitions { .. } => {
            depot_only = true;
            if let Some(given) = given_transitions {
                for (t, g) in given.iter().enumerate() {
                    if after.transitions.get(t) != Some(g) {
                        v13(
                            "set_next_day_transitions.not_applied",
                            format!("type {}: the schedule does not carry the transition it was given (cycles {:?} instead of {:?})", inst.types[t].id, after.transitions.get(t).map(|x| x.canonical()), g.canonical()),
                        );
                    }
                }
            }
            for (v, t) in &before.vehicles {
                if after.vehicles.get(v) != Some(t) {
                    v13("frame.tour_changed_by_transition_op", format!("{}", v));
                }
            }
        }
    }

    if depot_only {
        if before.vehicles.keys().collect::<Vec<_>>() != after.vehicles.keys().collect::<Vec<_>>() {
            v13("depot_only.vehicle_set_changed", "vehicle set changed".to_string());
        }
        for (v, t) in &before.vehicles {
            if let Some(a) = after.vehicles.get(v) {
                if acts(a) != acts(t) {
                    v13("depot_only.activities_changed", format!("{}: {:?} -> {:?}", v, b.ids(&t.nodes), b.ids(&a.nodes)));
                }
            }
        }
        if before.dummies != after.dummies {
            v13("depot_only.dummies_changed", "dummy tours changed".to_string());
        }
        if before.formations != after.formations {
            v13("depot_only.formations_changed", "formations changed".to_string());
        }
    } else {
        // frame conditions
        for (v, t) in before.vehicles.iter().chain(before.dummies.iter()) {
            if touched_v.contains(v) {
                continue;
            }
            if tour_of(after, *v) != Some(t) {
                v13(
                    "frame.other_vehicle_changed",
                    format!("{} was not named in the call but changed from {:?} to {:?}", v, b.ids(&t.nodes), tour_of(after, *v).map(|x| b.ids(&x.nodes))),
                );
            }
        }
        for v in after.vehicles.keys().chain(after.dummies.keys()) {
            if !touched_v.contains(v) && tour_of(before, *v).is_none() && !new_dummies.contains(v) && !new_vehicles.contains(v) {
                v13("frame.unexpected_new_tour", format!("{}", v));
            }
        }
        for (n, f) in &before.formations {
            if !touched_n.contains(n) && after.formations.get(n) != Some(f) {
                v13(
                    "frame.formation_elsewhere_changed",
                    format!("{}: {:?} -> {:?}", inst.node_id(*n), f, after.formations.get(n)),
                );
            }
        }
    }
    for (sig, detail) in c12 {
        out.viol("C12", &sig, format!("{}: {}", op.kind(), detail.clone()));
        out.viol("C13", &format!("tour.{}", sig), format!("{}: {}", op.kind(), detail));
    }
}

/// depots that can still spawn a vehicle of the type, given spawn counts per (depot, type)
/// capacities as the loaded network states them (C17 checks separately that they encode the
/// input; default depots are 'unlimited' only up to what an instance can need, and the random
/// histories spawn more vehicles than that)
fn depot_available(b: &Bridge, usage: &BTreeMap<(usize, usize), u64>, d: usize, t: usize) -> bool {
    let inst = &b.inst;
    if d == inst.overflow() {
        return true;
    }
    let of_type = usage.get(&(d, t)).copied().unwrap_or(0);
    let total: u64 = (0..inst.types.len()).map(|x| usage.get(&(d, x)).copied().unwrap_or(0)).sum();
    let cap_type = b.net.capacity_of(b.depot_idx[d], vt(t)) as u64;
    let cap_total = b.net.total_capacity_of(b.depot_idx[d]) as u64;
    of_type < cap_type && total < cap_total
}

fn spawn_usage(o: &Obs) -> BTreeMap<(usize, usize), u64> {
    let mut m = BTreeMap::new();
    for t in o.vehicles.values() {
        if let (Some(N::SD(d)), Some(ty)) = (t.nodes.first(), t.vtype) {
            *m.entry((*d, ty)).or_default() += 1;
        }
    }
    m
}

/// is `chosen` a nearest available start depot for an activity starting at `first`?
fn is_nearest_available_start(b: &Bridge, usage: &BTreeMap<(usize, usize), u64>, t: usize, first: N, chosen: usize) -> Result<(), String> {
    let inst = &b.inst;
    let dist = |d: usize| inst.dist(inst.depots[d].loc, inst.start_loc(first)).unwrap_or(i64::MAX);
    if !depot_available(b, usage, chosen, t) {
        return Err(format!("start depot {} has no room for the type", inst.depots[chosen].id));
    }
    let best = (0..inst.depots.len()).filter(|&d| depot_available(b, usage, d, t)).map(dist).min().unwrap_or(i64::MAX);
    if dist(chosen) != best {
        return Err(format!("start depot {} is {} m away, an available depot is {} m away", inst.depots[chosen].id, dist(chosen), best));
    }
    Ok(())
}

fn is_nearest_end(inst: &Inst, last: N, chosen: usize) -> Result<(), String> {
    let dist = |d: usize| inst.dist(inst.end_loc(last), inst.depots[d].loc).unwrap_or(i64::MAX);
    let best = (0..inst.depots.len()).map(dist).min().unwrap_or(i64::MAX);
    if dist(chosen) != best {
        return Err(format!("end depot {} is {} m away, the nearest depot is {} m away", inst.depots[chosen].id, dist(chosen), best));
    }
    Ok(())
}

fn check_move_formation(
    inst: &Inst,
    n: N,
    p: VehicleIdx,
    r: VehicleIdx,
    before: &Obs,
    after: &Obs,
    v13: &mut dyn FnMut(&str, String),
) {
    let bf = &before.formations[&n];
    let af = &after.formations[&n];
    let exp: Vec<VehicleIdx> = match (p.is_real(), r.is_real()) {
        (true, true) => {
            if bf.contains(&r) {
                // receiver already served the node: only membership is prescribed
                let mut a = af.clone();
                let mut e = without(bf, p);
                a.sort();
                e.sort();
                if a != e {
                    v13("formation.members", format!("{}: before {:?} after {:?}", inst.node_id(n), bf, af));
                }
                return;
            }
            bf.iter().map(|x| if *x == p { r } else { *x }).collect()
        }
        (true, false) => without(bf, p),
        (false, true) => {
            if bf.contains(&r) {
                // receiver already served the node: only membership is prescribed
                let mut a = af.clone();
                let mut e = bf.clone();
                a.sort();
                e.sort();
                if a != e {
                    v13("formation.members", format!("{}: before {:?} after {:?}", inst.node_id(n), bf, af));
                }
                return;
            } else {
                let mut e = bf.clone();
                e.push(r);
                e
            }
        }
        (false, false) => bf.clone(),
    };
    if *af != exp {
        v13(
            if p.is_real() && r.is_real() { "formation.replacement_position" } else if r.is_real() { "formation.addition_not_at_tail" } else { "formation.removal_changes_order" },
            format!("{}: before {:?} after {:?} expected {:?} (provider {}, receiver {})", inst.node_id(n), bf, af, exp, p, r),
        );
    }
}

/// argument shape of an operation (for the coverage table)
pub fn shape(b: &Bridge, op: &Op, before: &Obs, new_dummy: bool, vehicle_deleted: bool) -> String {
    let inst = &b.inst;
    let mut tags: Vec<&str> = Vec::new();
    let mut nodes: Vec<N> = Vec::new();
    match op {
        Op::Spawn { path, .. } | Op::AddPath { path, .. } => nodes.extend(path.iter().copied()),
        Op::RemoveSegment { v, i, j } => nodes.extend(before.vehicles[v].nodes[*i..=*j].iter().copied()),
        Op::Fit { p, r, i, j } | Op::Override { p, r, i, j } => {
            nodes.extend(tour_of(before, *p).unwrap().nodes[*i..=*j].iter().copied());
            tags.push(match (p.is_real(), r.is_real()) {
                (true, true) => "real->real",
                (true, false) => "real->dummy",
                (false, true) => "dummy->real",
                (false, false) => "dummy->dummy",
            });
            if tour_of(before, *p).map(|t| t.nodes.iter().chain(tour_of(before, *r).unwrap().nodes.iter()).any(|n| matches!(n, N::SD(d) | N::ED(d) if *d == inst.overflow()))).unwrap_or(false) {
                tags.push("overflow_depot_involved");
            }
        }
        _ => {}
    }
    if nodes.iter().any(|n| n.is_depot()) {
        tags.push("depot_in_argument");
    }
    if nodes.iter().any(|n| matches!(n, N::S(_))) {
        tags.push("maintenance_node");
    }
    if nodes.iter().any(|n| matches!(n, N::SD(d) | N::ED(d) if *d == inst.overflow())) {
        tags.push("overflow_depot_in_argument");
    }
    if new_dummy {
        tags.push("conflict_produced");
    }
    if vehicle_deleted {
        tags.push("vehicle_deleted");
    }
    format!("{}[{}]", op.kind(), tags.join(","))
}

pub fn instance(ctx: &Ctx, family: &str, idx: u64) -> (Value, String, &'static str, Rng) {
    let mut rng = Rng::new(mix(&[ctx.seed, hash_str(family), idx]));
    let profile = *rng.pick(&[
        Profile::Maint,
        Profile::Maint,
        Profile::Ties,
        Profile::Depots,
        Profile::Depots,
        Profile::Mixed,
        Profile::Limits,
        Profile::NonMetric,
        Profile::Forbid,
        Profile::Degenerate,
    ]);
    let max_dep = if ctx.thorough() { *rng.pick(&[4, 7, 12, 20]) } else { *rng.pick(&[3, 5, 8]) };
    let mut opts = GenOpts::new(profile, max_dep);
    if rng.chance(2, 3) {
        opts.force_slots = true;
    }
    let tag = format!("h{}c{}", ctx.seed, idx);
    let mut input = gen::generate(&mut rng, &opts, &tag);
    if rng.chance(1, 15) {
        // co-located scarce depots, nearest in seconds is not nearest in metres
        input = gen::depot_squeeze_network(&mut rng, &tag);
        return (input, tag, "depot_squeeze_network", rng);
    }
    if rng.chance(1, 15) {
        // turning around takes longer than a detour over another station
        input = gen::turnaround_network(&mut rng, &tag);
        return (input, tag, "turnaround_network", rng);
    }
    if rng.chance(1, 20) {
        // a busy line: tours with dozens of activities, slow non-metric dead-heads
        let ndep = rng.usize(25, if ctx.thorough() { 120 } else { 70 });
        let (ws, ld) = (rng.chance(1, 2), rng.chance(1, 2));
        input = gen::line_network(&mut rng, &tag, ndep, ws, ld);
        return (input, tag, "busy_line", rng);
    }
    if rng.chance(1, 10) {
        // a network where a detour over a maintenance slot is feasible but the direct connection
        // is not: dummy tours with a gap arise when the slot is stripped
        input = gen::gap_network(&mut rng, &tag);
        return (input, tag, "gap_network", rng);
    }
    (input, tag, profile.name(), rng)
}

pub fn start_state(rng: &mut Rng, b: &Bridge) -> Result<(Schedule, &'static str), PanicInfo> {
    let net = b.net.clone();
    match rng.below(4) {
        0 => Ok((Schedule::empty(net), "empty")),
        1 => {
            // one vehicle per trip until covered
            guard(|| {
                let mut s = Schedule::empty(net.clone());
                for trip in net.all_service_nodes() {
                    let mut guard_count = 0;
                    while !s.is_fully_covered(trip) && guard_count < 12 {
                        guard_count += 1;
                        match s.spawn_vehicle_for_path(net.vehicle_type_for(trip), vec![trip]) {
                            Ok((s2, _)) => s = s2,
                            Err(_) => break,
                        }
                    }
                }
                s
            })
            .map(|s| (s, "one_vehicle_per_trip"))
        }
        _ => guard(|| MinCostFlowSolver::initialize(net).solve()).map(|s| (s, "min_cost_flow")),
    }
}

pub fn case(ctx: &Ctx, idx: u64) -> CaseOut {
    let mut out = CaseOut::default();
    let (input, tag, profile, mut rng) = instance(ctx, "hist", idx);
    let b = Bridge::new(&input).expect("bridge");
    out.count(&format!("profile.{}", profile), 1);
    let (mut s, start_kind) = match start_state(&mut rng, &b) {
        Ok(x) => x,
        Err(p) => {
            out.viol("C06", &p.sig(), format!("building the start state panicked: {} at {}", p.message, p.location));
            out.inconclusive.push(format!("start state could not be built ({})", p.sig()));
            return out;
        }
    };
    out.count(&format!("start.{}", start_kind), 1);
    let n_ops = if ctx.thorough() { rng.usize(60, 400) } else { rng.usize(30, 80) };
    let mut seen_ids: BTreeSet<VehicleIdx> = BTreeSet::new();
    let mut history: Vec<Value> = Vec::new();
    let mut before = Obs::of(&b, &s);
    seen_ids.extend(before.vehicles.keys().copied());
    seen_ids.extend(before.dummies.keys().copied());
    // the start state itself must be sound
    let mut first = check_caches(&b, &before);
    first.extend(check_structure(&b, &before));
    if !first.is_empty() {
        out.add_findings(&first);
        out.witness = Some(json!({"input": input, "start": start_kind, "history": [], "state": before.to_json(&b)}));
        out.nontrivial.push(format!("{}:start", tag));
        return out;
    }
    let mut shapes: BTreeMap<String, u64> = BTreeMap::new();
    for step in 0..n_ops {
        let op = match pick_op(&mut rng, &b, &before) {
            Some(o) => o,
            None => break,
        };
        let opj = op.to_json(&b, &before);
        let applied = apply(&b, &s, &before, &op);
        // the input schedule must be untouched whatever happened
        let again = Obs::of(&b, &s);
        if again != before {
            out.viol("C13", "input_schedule_mutated", format!("{}: the schedule the operation was called on changed observably", op.kind()));
        }
        match applied {
            Applied::Unbuildable(why) => {
                out.count("ops_unbuildable", 1);
                if why.contains("refused a path") {
                    out.count("path_new_refused_model_valid_path", 1);
                }
                continue;
            }
            Applied::Err(_) => {
                out.count("ops_err", 1);
                out.count(&format!("err.{}", op.kind()), 1);
                history.push(json!({"i": step, "op": opj, "result": "err"}));
                continue;
            }
            Applied::Panic(p) => {
                out.count("ops_panic", 1);
                history.push(json!({"i": step, "op": opj, "result": format!("panic: {} at {}", p.message, p.location)}));
                out.viol(
                    "C13",
                    &format!("{}.{}", op.kind(), p.sig()),
                    format!("{} panicked on valid arguments: {} at {}", op.kind(), p.message, p.location),
                );
                out.inconclusive.push(format!("operation panicked ({})", p.sig()));
                out.witness = Some(json!({"input": input, "start": start_kind, "history": history, "state_before_last_op": before.to_json(&b)}));
                break;
            }
            Applied::Ok { s: s2, new_id, conflict, given_transitions } => {
                let after = Obs::of(&b, &s2);
                out.count("ops_ok", 1);
                out.count("states_observed", 1);
                history.push(json!({"i": step, "op": opj, "result": "ok"}));
                let n_before = out.viols.len();
                let f9 = check_caches(&b, &after);
                let f10 = check_structure(&b, &after);
                out.add_findings(&f9);
                out.add_findings(&f10);
                judge(&b, &op, &before, &after, new_id, &conflict, &given_transitions, &seen_ids, &mut out);
                // the repository's own self-check, never verdict bearing by itself
                if f9.is_empty() && f10.is_empty() {
                    if guard(|| s2.verify_consistency()).is_err() {
                        out.count("repo_self_check_disagrees", 1);
                    }
                }
                let changed = after != before;
                let new_dummy = after.dummies.keys().any(|d| !before.dummies.contains_key(d));
                let deleted = before.vehicles.keys().any(|v| !after.vehicles.contains_key(v));
                if changed {
                    let sh = shape(&b, &op, &before, new_dummy, deleted);
                    *shapes.entry(sh).or_default() += 1;
                }
                if out.viols.len() > n_before {
                    out.witness = Some(json!({
                        "input": input, "start": start_kind, "history": history,
                        "state_before_last_op": before.to_json(&b), "state_after_last_op": after.to_json(&b),
                    }));
                    break;
                }
                seen_ids.extend(after.vehicles.keys().copied());
                seen_ids.extend(after.dummies.keys().copied());
                s = s2;
                before = after;
            }
        }
    }
    for (k, n) in &shapes {
        out.nontrivial.push(format!("{}|{}", tag, k));
        out.count(&format!("shape.{}", k), *n);
    }
    if idx % 37 == 2 {
        out.sample = Some(json!({"instance_tag": tag, "profile": profile, "start": start_kind, "ops": history.len(), "first_ops": history.iter().take(6).collect::<Vec<_>>()}));
    }
    out
}
