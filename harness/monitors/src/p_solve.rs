//! C01 - C07: the solve pipeline observed at its JSON boundary.

use crate::gen::{self, GenOpts, Profile, PROFILES};
use crate::orch::{guard, CaseOut, Ctx};
use crate::rng::{hash_str, mix, Rng};
use refmodel::output::check_output;
use refmodel::Inst;
use serde_json::{json, Value};

const RESOURCES: [&str; 3] = [
    "/repo/model/resources/small_test_input.json",
    "/repo/model/resources/small_test_input_with_null_values.json",
    "/repo/model/resources/small_test_input_without_maintenance.json",
];

/// the instance of a case (shared by all properties of the solve family)
pub fn instance_for(ctx: &Ctx, idx: u64) -> (Value, String, String) {
    if (idx as usize) < RESOURCES.len() {
        if let Ok(s) = std::fs::read_to_string(RESOURCES[idx as usize]) {
            if let Ok(v) = serde_json::from_str::<Value>(&s) {
                return (v, format!("resource{}", idx), "resource".to_string());
            }
        }
    }
    let mut rng = Rng::new(mix(&[ctx.seed, hash_str("solve"), idx]));
    // profile emphasis per property
    let profile = match ctx.prop.as_str() {
        "C02" => *rng.pick(&[Profile::Limits, Profile::Limits, Profile::Depots, Profile::Depots, Profile::Maint, Profile::Mixed]),
        "C05" => *rng.pick(&[Profile::Maint, Profile::Maint, Profile::Depots, Profile::NonMetric, Profile::NonMetric, Profile::Mixed]),
        "C04" => *rng.pick(&[Profile::Maint, Profile::Maint, Profile::Depots, Profile::Mixed, Profile::Ties, Profile::NonMetric]),
        "C07" => *rng.pick(&[Profile::Limits, Profile::Limits, Profile::Mixed, Profile::Maint, Profile::Depots, Profile::Ties]),
        _ => PROFILES[(idx % PROFILES.len() as u64) as usize],
    };
    let max_dep = if ctx.thorough() && idx % 31 == 0 {
        45
    } else if ctx.thorough() && idx % 7 == 0 {
        30
    } else if idx % 50 == 17 {
        24
    } else if idx % 3 == 0 {
        12
    } else {
        6
    };
    let mut opts = GenOpts::new(profile, max_dep);
    if ctx.prop == "C05" {
        // rotation cycles only exist with maintenance: slots in most instances, several cycles
        opts.force_slots = rng.chance(5, 6);
        opts.rotation_rich = rng.chance(2, 3);
    } else if ctx.prop == "C04" && rng.chance(1, 2) {
        opts.force_slots = true;
        opts.rotation_rich = rng.chance(1, 2);
    }
    let tag = format!("s{}c{}", ctx.seed, idx);
    if idx % 100 == 11 {
        // shifted chain: many locations, one more vehicle would save many dead-head trips
        return (gen::chain_network(&mut rng, &tag), tag, "shifted_chain".to_string());
    }
    if idx % 100 == 57 {
        return (gen::gap_network(&mut rng, &tag), tag, "gap_network".to_string());
    }
    if idx % 100 == 83 || (ctx.prop == "C02" && idx % 10 == 4) {
        return (gen::depot_squeeze_network(&mut rng, &tag), tag, "depot_squeeze_network".to_string());
    }
    if idx % 100 == 71 {
        return (gen::turnaround_network(&mut rng, &tag), tag, "turnaround_network".to_string());
    }
    if idx % 100 == 33 {
        // a busy line: long tours, slow dead-heads; a third with trips of hundreds of km
        let ndep = rng.usize(25, 60);
        let with_slots = ndep <= 40 && rng.chance(1, 2);
        let long_distance = rng.chance(1, 3);
        let (ws, ld) = (with_slots, long_distance);
        return (gen::line_network(&mut rng, &tag, ndep, ws, ld), tag, "busy_line".to_string());
    }
    if idx % 500 == 123 {
        // a full-day timetable: hundreds of departures of one or two types (no maintenance
        // slots, the pipeline is flow + depots + transitions)
        let ndep = rng.usize(260, 340);
        let (ws, ld) = (false, rng.chance(1, 3));
        return (gen::line_network(&mut rng, &tag, ndep, ws, ld), tag, "full_day_timetable".to_string());
    }
    let input = gen::generate(&mut rng, &opts, &tag);
    (input, tag, profile.name().to_string())
}

pub fn case(ctx: &Ctx, idx: u64) -> CaseOut {
    let mut out = CaseOut::default();
    let (input, tag, profile) = instance_for(ctx, idx);
    let inst = match Inst::parse(&input) {
        Ok(i) => i,
        Err(e) => panic!("generator produced an instance the reference model cannot parse: {}", e),
    };
    out.count(&format!("profile.{}", profile), 1);
    for f in gen::features(&inst) {
        out.count(&format!("feature.{}", f), 1);
    }
    out.count("segments", inst.trips.len() as u64);
    if inst.trips.len() > 12 {
        // size class of the larger instances: completed peers need up to ~40 CPU-s
        // the biggest ones with maintenance (45 departures, 60+ segments) were seen to need
        // more than 500 s on a loaded machine: slow is not hung
        crate::orch::announce_cpu_budget(if inst.trips.len() > 30 { 3600.0 } else { 600.0 });
        out.count("instances_gt_12_segments", 1);
    }

    #[cfg(rssched_verif)]
    server::verif::start_recording();
    let answer = guard(|| server::solve_instance(input.clone()));
    #[cfg(rssched_verif)]
    let stages = server::verif::take_recording();

    let answer = match answer {
        Err(p) => {
            out.viol(
                "C06",
                &p.sig(),
                format!("solve_instance panicked: {} at {} (instance {}, profile {}, build {})", p.message, p.location, tag, profile, ctx.variant),
            );
            if ctx.prop != "C06" {
                out.inconclusive.push(format!("solve_instance panicked ({})", p.sig()));
            }
            out.witness = Some(json!({"input": input}));
            out.nontrivial.push(tag.clone());
            return out;
        }
        Ok(a) => a,
    };
    let ok_shape = answer.get("objectiveValue").is_some() && answer.get("schedule").is_some() && answer.get("info").is_some();
    if !ok_shape {
        out.viol("C06", "answer.missing_top_level_keys", format!("answer lacks info/objectiveValue/schedule (instance {})", tag));
    }

    let rep = check_output(&inst, &answer);
    out.add_findings(&rep.findings);
    let st = &rep.stats;
    out.count("vehicles", st.vehicles as u64);
    out.count("pairs_checked", st.pairs_checked as u64);
    out.count("pairs_with_location_change", st.pairs_loc_change as u64);
    out.count("pairs_zero_slack", st.pairs_zero_slack as u64);
    out.count("vehicles_on_overflow_depot", st.vehicles_on_overflow as u64);
    out.count("coupled_formations", st.coupled_formations as u64);
    out.count("dead_head_trips", st.dead_head_trips as u64);
    out.count("binding_formation_limits", st.binding_formation_limits as u64);
    out.count("full_depots", st.full_depots as u64);
    out.count("full_slots", st.full_slots as u64);
    out.count("answers_with_unserved", (st.unserved > 0) as u64);
    out.count("answers_with_violation", (st.violation > 0) as u64);
    out.count("idle_pairs", st.idle_pairs as u64);
    out.count("cycles_len_ge2", st.cycles_len_ge2 as u64);
    out.count("cycles_multi_depot", st.cycles_multi_depot as u64);
    out.count("singleton_cycles", st.singleton_cycles as u64);
    out.count("empty_cycles_listed", st.empty_cycles_listed as u64);
    out.count("segments_need_ge2", st.segs_need_ge2 as u64);
    out.count("segments_need_gt_limit", st.segs_need_gt_limit as u64);
    for (i, n) in ["limit_none", "limit_type_only", "limit_segment_only", "limit_both"].iter().enumerate() {
        out.count(&format!("trips.{}", n), st.limit_shapes[i] as u64);
    }

    #[cfg(rssched_verif)]
    {
        // C07: no later stage gives up covered demand
        let mut prev: Option<(String, u64)> = None;
        for (name, unserved) in stages.unserved_by_stage() {
            if let Some((pn, pu)) = &prev {
                if unserved > *pu {
                    out.viol(
                        "C07",
                        "coverage.stage_gives_up_demand",
                        format!("unserved passengers rise from {} after stage '{}' to {} after stage '{}'", pu, pn, unserved, name),
                    );
                }
            }
            prev = Some((name, unserved));
        }
        out.count("stages_observed", stages.len() as u64);
        out.count("local_search_steps", stages.ls_steps() as u64);
        // C04: the value that is finally reported is read from caches that every stage and every
        // accepted search step updated incrementally; recompute them on all recorded schedules
        if ctx.prop == "C04" && !stages.is_empty() {
            if let Ok(b) = crate::bridge::Bridge::from_parts(inst.clone(), stages.stages[0].1.get_network()) {
                let mut schedules: Vec<(String, &solution::Schedule)> = stages.stages.iter().map(|(n, s)| (format!("stage {}", n), s)).collect();
                for st in &stages.steps {
                    schedules.push((format!("search step {}", st.iteration), &st.new.0));
                }
                for (name, sched) in schedules {
                    let o = crate::bridge::Obs::of(&b, sched);
                    out.count("intermediate_schedules_recomputed", 1);
                    let f = crate::bridge::check_caches(&b, &o);
                    if let Some(first) = f.first() {
                        out.viol(
                            "C04",
                            &format!("objective.cached_value_of_intermediate_schedule.{}", first.clause),
                            format!("{}: {}", name, first.detail),
                        );
                        break;
                    }
                }
            }
        }
    }

    let nontrivial = match ctx.prop.as_str() {
        "C01" => st.max_acts_per_vehicle >= 2,
        "C02" => st.binding_formation_limits > 0 || st.full_depots > 0 || st.full_slots > 0,
        "C03" => st.coupled_formations > 0 && st.dead_head_trips > 0,
        "C04" => st.violation > 0 || st.unserved > 0 || st.idle_pairs > 0,
        "C05" => st.cycles_len_ge2 > 0,
        "C07" => st.segs_need_ge2 > 0,
        _ => true,
    };
    if nontrivial {
        out.nontrivial.push(tag.clone());
    }
    if ctx.prop == "C05" && st.cycles_multi_depot > 0 {
        out.count("answers_with_multi_depot_cycle", 1);
    }
    let interesting = !out.viols.is_empty();
    if idx % 97 == 5 || interesting {
        out.sample = Some(json!({
            "instance_tag": tag, "profile": profile,
            "segments": inst.trips.len(), "slots": inst.slots.len(), "types": inst.types.len(),
            "objectiveValue": answer.get("objectiveValue"),
            "vehicles": st.vehicles, "pairs_checked": st.pairs_checked,
        }));
    }
    if interesting {
        out.witness = Some(json!({"input": input, "answer": answer}));
    }
    out
}
