//! C16: the returned schedule is the product of all pipeline stages.
//! Trace checker over the stage snapshots recorded by hook H2 during one solve_instance call.

use crate::bridge::{vt, Bridge, Obs, TransObs};
use crate::orch::{guard, CaseOut, Ctx};
use model::base_types::VehicleIdx;
use refmodel::output::{check_output, parse_vehicles};
use refmodel::N;
use serde_json::json;
use std::collections::BTreeMap;

fn activities(o: &Obs) -> BTreeMap<VehicleIdx, Vec<N>> {
    o.vehicles.iter().map(|(v, t)| (*v, t.activities())).collect()
}
fn start_depots(o: &Obs) -> BTreeMap<VehicleIdx, Option<N>> {
    o.vehicles.iter().map(|(v, t)| (*v, t.nodes.first().copied())).collect()
}

#[cfg(rssched_verif)]
pub fn case(ctx: &Ctx, idx: u64) -> CaseOut {
    let mut out = CaseOut::default();
    let mut rng = crate::rng::Rng::new(crate::rng::mix(&[ctx.seed, crate::rng::hash_str("pipe"), idx]));
    // workload tuned so that the transition optimiser has something to do: maintenance, several
    // depots far apart, tight allowance
    let profile = *rng.pick(&[
        crate::gen::Profile::Maint,
        crate::gen::Profile::Maint,
        crate::gen::Profile::Depots,
        crate::gen::Profile::NonMetric,
        crate::gen::Profile::Mixed,
    ]);
    let max_dep = if ctx.thorough() { *rng.pick(&[6, 10, 16]) } else { *rng.pick(&[5, 8, 12]) };
    let mut opts = crate::gen::GenOpts::new(profile, max_dep);
    opts.force_slots = rng.chance(5, 6);
    opts.rotation_rich = rng.chance(2, 3);
    let tag = format!("p{}c{}", ctx.seed, idx);
    let input = crate::gen::generate(&mut rng, &opts, &tag);
    let inst0 = refmodel::Inst::parse(&input).expect("reference model cannot parse generated instance");
    out.count(&format!("profile.{}", profile.name()), 1);
    if inst0.trips.len() > 12 {
        crate::orch::announce_cpu_budget(600.0);
    }
    server::verif::start_recording();
    let answer = guard(|| server::solve_instance(input.clone()));
    let rec = server::verif::take_recording();
    let answer = match answer {
        Ok(a) => a,
        Err(p) => {
            out.viol("C06", &p.sig(), format!("solve_instance panicked: {} at {}", p.message, p.location));
            out.inconclusive.push(format!("solve_instance panicked ({})", p.sig()));
            return out;
        }
    };
    let names: Vec<&str> = rec.stages.iter().map(|(n, _)| n.as_str()).collect();
    let expected = ["min_cost_flow", "start", "local_search", "optimized_transitions", "final"];
    if names != expected {
        out.viol("C16", "stages.missing_or_reordered", format!("recorded stages {:?}, expected {:?}", names, expected));
        return out;
    }
    // the schedules live on the network solve_instance loaded itself (depot indices of default
    // depots are assigned in hash order, so another load of the same input may number them
    // differently): observe them through a bridge onto that very network
    let b = Bridge::from_parts(inst0, rec.stages[0].1.get_network()).expect("bridge");
    let inst = &b.inst;
    let obs: Vec<Obs> = rec.stages.iter().map(|(_, s)| Obs::of(&b, s)).collect();
    let (s_raw, s0, s1, s2, s3) = (&obs[0], &obs[1], &obs[2], &obs[3], &obs[4]);
    out.count("pipeline_runs", 1);
    out.count("local_search_steps", rec.steps.len() as u64);

    // start = improve_depots of the raw min-cost-flow result: same vehicles, same activities
    if activities(s_raw) != activities(s0) {
        out.viol("C16", "start.not_the_flow_solution", "the schedule handed to the search has other vehicles/activities than the min-cost-flow result".to_string());
    }
    // S1 is the end of the recorded search chain that starts at S0
    if inst.slots.is_empty() {
        if !rec.steps.is_empty() || s1 != s0 {
            out.viol("C16", "search.ran_without_slots_or_changed_schedule", "no maintenance slots but the local-search stage changed the schedule".to_string());
        }
    } else if rec.steps.is_empty() {
        if s1 != s0 {
            out.viol("C16", "search.result_not_from_start", "no step was accepted but the search result differs from the start schedule".to_string());
        }
    } else {
        let first_prev = rec.steps[0].previous.as_ref().map(|(s, _)| Obs::of(&b, s));
        if first_prev.as_ref() != Some(s0) {
            out.viol("C16", "search.not_started_from_start_schedule", "the first accepted step does not start from the depot-improved start schedule".to_string());
        }
        let last_new = Obs::of(&b, &rec.steps.last().unwrap().new.0);
        if &last_new != s1 {
            out.viol("C16", "search.result_not_last_step", "the schedule after the search stage is not the last accepted step".to_string());
        }
    }
    // transitions chosen by the optimiser
    let tstar: Vec<TransObs> = match &rec.optimized_transitions {
        Some(m) => (0..inst.types.len()).map(|t| TransObs::of(m.get(&vt(t)).expect("type in map"))).collect(),
        None => {
            out.viol("C16", "stages.no_optimised_transitions", "the transition optimisation recorded nothing".to_string());
            return out;
        }
    };
    let differs = (0..inst.types.len()).any(|t| tstar[t].canonical() != s1.transitions[t].canonical());
    out.count("runs_where_optimiser_changed_cycles", differs as u64);
    if differs {
        out.count(&format!("optimiser_changed_cycles.profile.{}", profile.name()), 1);
    }
    let multi_cycle_types = (0..inst.types.len()).filter(|&t| s1.transitions[t].cycles.iter().filter(|c| !c.members.is_empty()).count() >= 2).count();
    out.count("runs_with_a_type_having_two_or_more_cycles", (multi_cycle_types > 0) as u64);
    if s2.vehicles != s1.vehicles {
        out.viol("C16", "optimised.tours_changed", "setting the optimised transitions changed tours".to_string());
    }
    for t in 0..inst.types.len() {
        if s2.transitions[t].canonical() != tstar[t].canonical() {
            out.viol("C16", "optimised.cycles_not_carried", format!("type {}: schedule after the optimisation stage does not carry the optimiser's cycles", inst.types[t].id));
        }
    }
    // the cycles the answer is built on are a fixpoint of the optimiser stage for EVERY type:
    // an independent re-run of the real optimiser (same tours, i.e. the search result) started
    // from them accepts nothing. A type whose optimisation was skipped, lost or overwritten
    // between the optimiser and the stage snapshot shows up here even if all recorded snapshots
    // agree with each other.
    {
        use solver::transition_local_search::{build_transition_local_search_solver, TransitionWithInfo};
        use rapid_solve::heuristics::Solver;
        let s1_schedule = &rec.stages[2].1;
        let s2_schedule = &rec.stages[3].1;
        let net = s1_schedule.get_network();
        match guard(|| build_transition_local_search_solver(s1_schedule, net.clone())) {
            Err(p) => out.inconclusive.push(format!("re-run of the transition optimiser could not be built ({})", p.sig())),
            Ok(solver) => {
                for t in 0..inst.types.len() {
                    let carried = s2_schedule.next_day_transition_of(vt(t)).clone();
                    let before = (carried.maintenance_violation(), carried.maintenance_counter());
                    match guard(|| solver.solve(TransitionWithInfo::new(carried.clone(), "re-run".to_string())).unwrap().unwrap_transition()) {
                        Err(p) => out.inconclusive.push(format!("re-run of the transition optimiser panicked ({})", p.sig())),
                        Ok(again) => {
                            let after = (again.maintenance_violation(), again.maintenance_counter());
                            out.count("optimiser_reruns", 1);
                            let searched = s1.transitions[t].canonical() != s2.transitions[t].canonical();
                            out.count("optimiser_reruns_on_changed_type", searched as u64);
                            if after < before {
                                out.viol(
                                    "C16",
                                    "optimised.not_a_fixpoint_of_the_optimiser",
                                    format!(
                                        "type {}: the cycles carried by the answer {:?} have (violation, counter) {:?}, re-running the transition optimiser from them on the search result's tours still improves to {:?}: the optimiser's result for this type did not reach the answer",
                                        inst.types[t].id,
                                        s2.transitions[t].canonical(),
                                        before,
                                        after
                                    ),
                                );
                            }
                        }
                    }
                }
            }
        }
    }
    // the hand-over itself under cycles the optimiser did not happen to choose in this run: the
    // search result is given rotation cycles that were rearranged by 1-4 random `move_vehicle`
    // steps per type (better or WORSE than the carried ones in violation and in counter); the
    // schedule must carry exactly the cycles it was handed, for every type, and its violation
    // must be the sum over the handed transitions. (The pipeline only ever shows the hand-over
    // the cycles of one optimiser run; a hand-over that filters what it is given - keeps the old
    // cycles of a type unless ... - is otherwise seen only when that run meets the condition.)
    {
        let s1_schedule = &rec.stages[2].1;
        let net = s1_schedule.get_network();
        let tours = s1_schedule.get_tours();
        let mut handed: std::collections::HashMap<model::base_types::VehicleTypeIdx, solution::transition::Transition> = std::collections::HashMap::new();
        let mut rearranged_types = 0u64;
        let built = guard(|| {
            let mut handed = std::collections::HashMap::new();
            let mut rearranged = 0u64;
            for t in 0..inst.types.len() {
                let mut tr = s1_schedule.next_day_transition_of(vt(t)).clone();
                let vehicles: Vec<VehicleIdx> = tr.cycles_iter().flat_map(|c| c.iter().collect::<Vec<_>>()).collect();
                let ncycles = tr.number_of_cycles();
                if vehicles.len() >= 2 && ncycles >= 1 {
                    let before = TransObs::of(&tr).canonical();
                    for _ in 0..rng.usize(1, 4) {
                        let v = *rng.pick(&vehicles);
                        let c = rng.usize(0, ncycles - 1);
                        tr = tr.move_vehicle(v, c, tours, &net);
                    }
                    if TransObs::of(&tr).canonical() != before {
                        rearranged += 1;
                    }
                }
                handed.insert(vt(t), tr);
            }
            (handed, rearranged)
        });
        match built {
            Err(p) => out.inconclusive.push(format!("rearranging the cycles for the hand-over probe panicked ({})", p.sig())),
            Ok((h, r)) => {
                handed = h;
                rearranged_types = r;
            }
        }
        if rearranged_types > 0 {
            let want: Vec<Vec<Vec<VehicleIdx>>> = (0..inst.types.len()).map(|t| TransObs::of(&handed[&vt(t)]).canonical()).collect();
            let want_violation: i64 = (0..inst.types.len()).map(|t| handed[&vt(t)].maintenance_violation() as i64).sum();
            let worse = (0..inst.types.len()).filter(|&t| handed[&vt(t)].maintenance_counter() > s1_schedule.next_day_transition_of(vt(t)).maintenance_counter()).count();
            match guard(|| s1_schedule.set_next_day_transitions(handed.iter().map(|(k, v)| (*k, v.clone())).collect())) {
                Err(p) => out.viol("C16", &format!("handover.{}", p.sig()), format!("set_next_day_transitions panicked on rearranged cycles: {} at {}", p.message, p.location)),
                Ok(after) => {
                    out.count("handover_probes", 1);
                    out.count("handover_probe_types_rearranged", rearranged_types);
                    out.count("handover_probe_types_with_larger_counter_than_before", worse as u64);
                    for t in 0..inst.types.len() {
                        let got = TransObs::of(after.next_day_transition_of(vt(t))).canonical();
                        if got != want[t] {
                            out.viol(
                                "C16",
                                "handover.cycles_not_carried",
                                format!("type {}: the schedule was handed the cycles {:?} but carries {:?} (search result had {:?})", inst.types[t].id, want[t], got, s1.transitions[t].canonical()),
                            );
                        }
                    }
                    if after.maintenance_violation() as i64 != want_violation {
                        out.viol(
                            "C16",
                            "handover.violation_not_of_the_handed_cycles",
                            format!("after the hand-over the schedule reports maintenance violation {} but the handed transitions sum to {}", after.maintenance_violation(), want_violation),
                        );
                    }
                    if after.get_tours().len() != tours.len() {
                        out.viol("C16", "handover.tours_changed", "handing over cycles changed the number of tours".to_string());
                    }
                }
            }
        }
    }
    // final schedule: activities of S1, start depots unchanged, cycles T*, end depots follow T*
    if activities(s3) != activities(s1) {
        out.viol("C16", "final.activities_differ_from_search_result", "activities per vehicle of the final schedule are not those of the local-search result".to_string());
    }
    if start_depots(s3) != start_depots(s1) {
        out.viol("C16", "final.start_depots_changed", "start depots changed after the search".to_string());
    }
    for t in 0..inst.types.len() {
        if s3.transitions[t].canonical() != tstar[t].canonical() {
            out.viol(
                "C16",
                "final.cycles_are_not_the_optimisers",
                format!(
                    "type {}: final cycles {:?}, optimiser chose {:?} (search result had {:?})",
                    inst.types[t].id,
                    s3.transitions[t].canonical(),
                    tstar[t].canonical(),
                    s1.transitions[t].canonical()
                ),
            );
        }
        for cyc in tstar[t].canonical() {
            for (k, v) in cyc.iter().enumerate() {
                let next = cyc[(k + 1) % cyc.len()];
                if let (Some(a), Some(nx)) = (s3.vehicles.get(v), s3.vehicles.get(&next)) {
                    let e = match a.nodes.last() { Some(N::ED(d)) => Some(*d), _ => None };
                    let s = match nx.nodes.first() { Some(N::SD(d)) => Some(*d), _ => None };
                    if e != s {
                        out.viol("C16", "final.end_depots_do_not_follow_optimised_cycles", format!("{} ends at {:?} but its successor {} in the optimiser's cycle starts at {:?}", v, e, next, s));
                    }
                }
            }
        }
    }
    // returned JSON = final schedule, its cycles = T*
    let parsed = parse_vehicles(inst, &answer);
    let mut json_tours: BTreeMap<String, (String, String, Vec<N>)> = BTreeMap::new();
    for v in &parsed.vehicles {
        json_tours.insert(v.id.clone(), (v.start_depot.clone(), v.end_depot.clone(), v.acts.clone()));
    }
    let mut s3_tours: BTreeMap<String, (String, String, Vec<N>)> = BTreeMap::new();
    for (v, t) in &s3.vehicles {
        let sd = match t.nodes.first() { Some(N::SD(d)) => inst.depots[*d].id.clone(), _ => String::new() };
        let ed = match t.nodes.last() { Some(N::ED(d)) => inst.depots[*d].id.clone(), _ => String::new() };
        s3_tours.insert(v.to_string(), (sd, ed, t.activities()));
    }
    if json_tours != s3_tours {
        out.viol("C16", "json.vehicle_view_is_not_the_final_schedule", "the vehicle view of the returned JSON differs from the final schedule".to_string());
    }
    for t in 0..inst.types.len() {
        let mut jc: Vec<Vec<String>> = parsed.cycles[t]
            .iter()
            .filter(|c| !c.is_empty())
            .map(|c| {
                let k = (0..c.len()).min_by_key(|&i| VehicleKey(&c[i])).unwrap();
                let mut r = c[k..].to_vec();
                r.extend_from_slice(&c[..k]);
                r
            })
            .collect();
        jc.sort();
        let mut tc: Vec<Vec<String>> = tstar[t]
            .canonical()
            .iter()
            .map(|c| {
                let c: Vec<String> = c.iter().map(|v| v.to_string()).collect();
                let k = (0..c.len()).min_by_key(|&i| VehicleKey(&c[i])).unwrap();
                let mut r = c[k..].to_vec();
                r.extend_from_slice(&c[..k]);
                r
            })
            .collect();
        tc.sort();
        if jc != tc {
            out.viol(
                "C16",
                "json.cycles_are_not_the_optimisers",
                format!("type {}: reported vehicleCycles {:?}, optimiser chose {:?}", inst.types[t].id, jc, tc),
            );
        }
    }
    // the reported objective is the evaluation of the returned schedule
    let rep = check_output(inst, &answer);
    for f in rep.findings.iter().filter(|f| f.prop == "C04") {
        out.viol("C16", &format!("json.{}", f.clause), f.detail.clone());
    }
    if differs {
        out.nontrivial.push(tag.clone());
    }
    if !out.viols.is_empty() {
        out.witness = Some(json!({
            "input": input, "answer": answer,
            "stages": rec.stages.iter().zip(obs.iter()).map(|((n, _), o)| json!({"stage": n, "state": o.to_json(&b)})).collect::<Vec<_>>(),
            "optimised_cycles": tstar.iter().map(|t| t.canonical().iter().map(|c| c.iter().map(|v| v.to_string()).collect::<Vec<_>>()).collect::<Vec<_>>()).collect::<Vec<_>>(),
        }));
    }
    if idx % 17 == 0 || (differs && idx % 3 == 0) {
        out.sample = Some(json!({
            "instance_tag": tag, "profile": profile.name(), "segments": inst.trips.len(), "local_search_steps": rec.steps.len(),
            "optimiser_changed_cycles": differs,
            "cycles_after_search": s1.transitions.iter().map(|t| t.canonical().iter().map(|c| c.iter().map(|v| v.to_string()).collect::<Vec<_>>()).collect::<Vec<_>>()).collect::<Vec<_>>(),
            "cycles_chosen_by_optimiser": tstar.iter().map(|t| t.canonical().iter().map(|c| c.iter().map(|v| v.to_string()).collect::<Vec<_>>()).collect::<Vec<_>>()).collect::<Vec<_>>(),
        }));
    }
    out
}

/// order "veh_10" after "veh_9"
#[derive(PartialEq, Eq, PartialOrd, Ord)]
struct VehicleKeyOwned(u64, String);
#[allow(non_snake_case)]
fn VehicleKey(s: &str) -> VehicleKeyOwned {
    let n = s.rsplit('_').next().and_then(|x| x.parse::<u64>().ok()).unwrap_or(u64::MAX);
    VehicleKeyOwned(n, s.to_string())
}

#[cfg(not(rssched_verif))]
pub fn case(_ctx: &Ctx, _idx: u64) -> CaseOut {
    panic!("C16 needs the hooks: build with --cfg rssched_verif");
}
