//! C11: every local-search candidate is a valid schedule with truthful objective;
//! generating candidates never panics and leaves the base schedule observably unchanged.

use crate::bridge::{check_caches, check_structure, Bridge, Obs};
use crate::orch::{guard, CaseOut, Ctx};
use crate::p_hist;
use crate::rng::Rng;
use model::network::Network;
use rapid_solve::heuristics::common::ParallelNeighborhood;
use rapid_time::Duration;
use rayon::iter::ParallelIterator;
use serde_json::json;
use solution::Schedule;
use solver::local_search::neighborhood::swaps::SwapInfo;
use solver::local_search::neighborhood::RSSchedParallelNeighborhood;
use solver::local_search::ScheduleWithInfo;
use std::sync::Arc;

pub fn production_neighborhood(net: Arc<Network>) -> RSSchedParallelNeighborhood {
    RSSchedParallelNeighborhood::new(Some(Duration::new("3:00:00")), Some(Duration::new("0:10:00")), net)
}

pub fn swap_kind(i: SwapInfo) -> &'static str {
    match i {
        SwapInfo::SpawnVehicleForMaintenance(_) => "spawn_vehicle_for_maintenance",
        SwapInfo::PathExchange(_) => "path_exchange",
        SwapInfo::AddTripForHitchHiking(_) => "add_trip_for_hitch_hiking",
        SwapInfo::RemoveSingleNode(_) => "remove_single_node",
        SwapInfo::NoSwap => "no_swap",
    }
}

pub fn neighbors(nb: &RSSchedParallelNeighborhood, base: &ScheduleWithInfo) -> Vec<ScheduleWithInfo> {
    nb.neighbors_of(base).collect()
}

pub fn case(ctx: &Ctx, idx: u64) -> CaseOut {
    let mut out = CaseOut::default();
    let (input, tag, profile, mut rng) = p_hist::instance(ctx, "nbh", idx);
    let b = Bridge::new(&input).expect("bridge");
    out.count(&format!("profile.{}", profile), 1);
    if b.inst.trips.len() > 12 {
        crate::orch::announce_cpu_budget(300.0);
    }
    if ctx.variant == "tsan" && b.inst.trips.len() > 25 {
        // neighbourhoods of busy lines need tens of GB under ThreadSanitizer's shadow memory
        out.count("skipped_big_instance_under_tsan", 1);
        return out;
    }
    let (mut s, start_kind) = match p_hist::start_state(&mut rng, &b) {
        Ok(x) => x,
        Err(p) => {
            out.viol("C06", &p.sig(), format!("start state panicked: {}", p.message));
            out.inconclusive.push(format!("start state could not be built ({})", p.sig()));
            return out;
        }
    };
    out.count(&format!("start.{}", start_kind), 1);
    // optionally walk a C09-style history first
    if rng.chance(1, 3) {
        let mut o = Obs::of(&b, &s);
        for _ in 0..rng.usize(3, 25) {
            if let Some(op) = p_hist::pick_op(&mut rng, &b, &o) {
                if let p_hist::Applied::Ok { s: s2, .. } = p_hist::apply(&b, &s, &o, &op) {
                    s = s2;
                    o = Obs::of(&b, &s);
                }
            }
        }
        out.count("states_reached_by_history", 1);
    } else if start_kind == "min_cost_flow" && rng.chance(1, 2) {
        if let Ok(s2) = guard(|| s.improve_depots(None)) {
            s = s2;
        }
    }
    // a dummy tour that collects trips of two vehicle types (a whole vehicle becomes a dummy,
    // then trips of a vehicle of another type are fitted into that dummy)
    if b.inst.types.len() >= 2 && rng.chance(1, 2) {
        let o = Obs::of(&b, &s);
        let reals: Vec<_> = o.vehicles.keys().copied().collect();
        if reals.len() >= 2 {
            let v1 = *rng.pick(&reals);
            let others: Vec<_> = reals.iter().copied().filter(|v| o.vehicles[v].vtype != o.vehicles[&v1].vtype).collect();
            if !others.is_empty() {
                if let p_hist::Applied::Ok { s: s1, .. } = p_hist::apply(&b, &s, &o, &p_hist::Op::ReplaceByDummy { v: v1 }) {
                    let o1 = Obs::of(&b, &s1);
                    if let Some(d) = o1.dummies.keys().copied().find(|d| !o.dummies.contains_key(d)) {
                        let mut cur = s1;
                        let mut mixed = false;
                        for _ in 0..6 {
                            let oc = Obs::of(&b, &cur);
                            let v2 = *rng.pick(&others);
                            let t2 = match oc.vehicles.get(&v2) {
                                Some(t) => t,
                                None => continue,
                            };
                            let (i, j) = p_hist::pick_segment(&mut rng, t2);
                            if let p_hist::Applied::Ok { s: s2, .. } = p_hist::apply(&b, &cur, &oc, &p_hist::Op::Fit { p: v2, r: d, i, j }) {
                                cur = s2;
                                mixed = true;
                            }
                        }
                        if mixed {
                            s = cur;
                            out.count("states_with_a_dummy_fed_from_two_types", 1);
                        }
                    }
                }
            }
        }
    }
    let production = rng.chance(2, 3);
    let nb = if production {
        production_neighborhood(b.net.clone())
    } else {
        RSSchedParallelNeighborhood::new(None, None, b.net.clone())
    };
    out.count(if production { "neighborhood.production_parameters" } else { "neighborhood.unlimited_segments" }, 1);
    let walk_len = if ctx.thorough() { rng.usize(5, 30) } else { rng.usize(3, 10) };
    // big instances (busy lines): every candidate costs a full recomputation over dozens of tours,
    // so the walk is short and a neighbourhood is checked on a seeded sample
    let big = b.inst.trips.len() > 30;
    let walk_len = if big { walk_len.min(3) } else { walk_len };
    let max_checked = if big { 120 } else { 800 };
    let mut current = ScheduleWithInfo::new(s, SwapInfo::NoSwap, String::new());
    let mut walk: Vec<String> = Vec::new();
    for step in 0..walk_len {
        let before = Obs::of(&b, current.get_schedule());
        // the state itself must be sound, otherwise candidates cannot be blamed
        if step == 0 {
            let mut f = check_caches(&b, &before);
            f.extend(check_structure(&b, &before));
            if !f.is_empty() {
                out.inconclusive.push("walk started from an unsound state (reported by C09/C10)".to_string());
                out.add_findings(&f);
                return out;
            }
        }
        let cands = match guard(|| neighbors(&nb, &current)) {
            Ok(c) => c,
            Err(p) => {
                out.viol(
                    "C11",
                    &format!("generation.{}", p.sig()),
                    format!("generating the neighbourhood panicked: {} at {} (walk {:?})", p.message, p.location, walk),
                );
                out.witness = Some(json!({"input": input, "start": start_kind, "walk": walk, "state": before.to_json(&b)}));
                return out;
            }
        };
        let after = Obs::of(&b, current.get_schedule());
        if after != before {
            out.viol("C11", "base_schedule_changed", format!("the base schedule changed observably while its neighbourhood was generated (walk {:?})", walk));
            out.witness = Some(json!({"input": input, "start": start_kind, "walk": walk, "before": before.to_json(&b), "after": after.to_json(&b)}));
            return out;
        }
        // concurrent generation on the same base
        if step == 0 && rng.chance(1, 3) {
            let results: Vec<Result<usize, crate::orch::PanicInfo>> = std::thread::scope(|sc| {
                let hs: Vec<_> = (0..4).map(|_| sc.spawn(|| guard(|| neighbors(&nb, &current).len()))).collect();
                hs.into_iter().map(|h| h.join().unwrap()).collect()
            });
            out.count("concurrent_generations", 4);
            let again = Obs::of(&b, current.get_schedule());
            if again != before {
                out.viol("C11", "base_schedule_changed.concurrent", "the base schedule changed observably under concurrent neighbourhood generation".to_string());
            }
            for r in &results {
                match r {
                    Err(p) => out.viol("C11", &format!("generation.concurrent.{}", p.sig()), format!("concurrent generation panicked: {}", p.message)),
                    Ok(n) => {
                        if *n != cands.len() {
                            out.viol("C11", "generation.concurrent.count_differs", format!("{} candidates sequentially, {} concurrently", cands.len(), n));
                        }
                    }
                }
            }
        }
        out.count("states", 1);
        out.count("candidates", cands.len() as u64);
        if cands.is_empty() {
            break;
        }
        out.nontrivial.push(format!("{}|{}", tag, step));
        let mut bad = false;
        let stride = (cands.len() + max_checked - 1) / max_checked;
        let offset = if stride > 1 { rng.usize(0, stride - 1) } else { 0 };
        if stride > 1 {
            out.count("neighbourhoods_checked_on_a_sample", 1);
        }
        for (ci, c) in cands.iter().enumerate() {
            if stride > 1 && ci % stride != offset {
                continue;
            }
            out.count("candidates_checked", 1);
            let kind = swap_kind(c.get_last_swap_info());
            out.count(&format!("candidates.{}", kind), 1);
            let o = Obs::of(&b, c.get_schedule());
            let mut f = check_caches(&b, &o);
            f.extend(check_structure(&b, &o));
            if !f.is_empty() {
                for x in &f {
                    out.viol("C11", &format!("candidate.{}.{}", kind, x.clause), format!("{} produced by '{}' (walk {:?})", x.detail, c.get_print_text(), walk));
                }
                if out.witness.is_none() {
                    out.witness = Some(json!({"input": input, "start": start_kind, "walk": walk, "base": before.to_json(&b), "swap": c.get_print_text(), "candidate": o.to_json(&b)}));
                }
                bad = true;
                break;
            }
            if !o.dummies.is_empty() {
                out.count("candidates_with_dummy_tours", 1);
            }
            if o.vehicles.values().any(|t| t.dead_head_distance.is_none()) {
                out.count("candidates_using_overflow_depot", 1);
            }
        }
        if bad {
            break;
        }
        // next state: a uniformly random candidate (not an improving one)
        let k = rng.usize(0, cands.len() - 1);
        walk.push(cands[k].get_print_text().to_string());
        out.count(&format!("walk_steps.{}", swap_kind(cands[k].get_last_swap_info())), 1);
        current = cands[k].clone();
    }
    if idx % 23 == 1 {
        out.sample = Some(json!({"instance_tag": tag, "profile": profile, "start": start_kind, "walk": walk, "counters": out.counters}));
    }
    out
}

/// used by C08: is any neighbour lexicographically better on true values?
pub fn better_neighbor(b: &Bridge, net: Arc<Network>, s: &Schedule) -> Option<((i64, i64, i64, i128), String)> {
    let nb = production_neighborhood(net);
    let base = ScheduleWithInfo::new(s.clone(), SwapInfo::NoSwap, String::new());
    let base_val = Obs::of(b, s).true_objective(b);
    for c in neighbors(&nb, &base) {
        let v = Obs::of(b, c.get_schedule()).true_objective(b);
        if v < base_val {
            return Some((v, c.get_print_text().to_string()));
        }
    }
    None
}

#[allow(dead_code)]
pub fn rng_unused(_: &mut Rng) {}
