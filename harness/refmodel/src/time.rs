//! Own ISO-like timestamp handling (seconds since 1970-01-01, proleptic Gregorian).

/// days since 1970-01-01 for a civil date (Howard Hinnant's algorithm)
pub fn days_from_civil(y: i64, m: i64, d: i64) -> i64 {
    let y = if m <= 2 { y - 1 } else { y };
    let era = if y >= 0 { y } else { y - 399 } / 400;
    let yoe = y - era * 400;
    let mp = (m + 9) % 12;
    let doy = (153 * mp + 2) / 5 + d - 1;
    let doe = yoe * 365 + yoe / 4 - yoe / 100 + doy;
    era * 146097 + doe - 719468
}

pub fn civil_from_days(z: i64) -> (i64, i64, i64) {
    let z = z + 719468;
    let era = if z >= 0 { z } else { z - 146096 } / 146097;
    let doe = z - era * 146097;
    let yoe = (doe - doe / 1460 + doe / 36524 - doe / 146096) / 365;
    let y = yoe + era * 400;
    let doy = doe - (365 * yoe + yoe / 4 - yoe / 100);
    let mp = (5 * doy + 2) / 153;
    let d = doy - (153 * mp + 2) / 5 + 1;
    let m = if mp < 10 { mp + 3 } else { mp - 9 };
    (if m <= 2 { y + 1 } else { y }, m, d)
}

/// A timestamp as it may occur in the output: a proper instant or the two symbolic
/// values used for legs at the overflow depot.
#[derive(Clone, Copy, Debug, PartialEq, Eq, PartialOrd, Ord)]
pub enum T {
    Earliest,
    At(i64),
    Latest,
}

/// parse `YYYY-M-DTh:mm[:ss][Z]` (separators `T`, space, `-`, `:`) into seconds
pub fn parse(s: &str) -> Result<i64, String> {
    let cleaned = s.replace('Z', "");
    let parts: Vec<&str> = cleaned
        .split(|c| c == 'T' || c == '-' || c == ' ' || c == ':')
        .collect();
    if parts.len() < 5 || parts.len() > 6 {
        return Err(format!("bad timestamp '{}'", s));
    }
    let num = |i: usize| -> Result<i64, String> {
        parts[i]
            .parse::<i64>()
            .map_err(|_| format!("bad timestamp '{}'", s))
    };
    let (y, mo, d, h, mi) = (num(0)?, num(1)?, num(2)?, num(3)?, num(4)?);
    let sec = if parts.len() == 6 { num(5)? } else { 0 };
    if !(1..=12).contains(&mo) || !(1..=31).contains(&d) || h > 24 || mi > 59 || sec > 59 {
        return Err(format!("bad timestamp '{}'", s));
    }
    Ok(days_from_civil(y, mo, d) * 86400 + h * 3600 + mi * 60 + sec)
}

pub fn parse_t(s: &str) -> Result<T, String> {
    match s {
        "EARLIEST" => Ok(T::Earliest),
        "LATEST" => Ok(T::Latest),
        _ => parse(s).map(T::At),
    }
}

pub fn format(t: i64) -> String {
    let days = t.div_euclid(86400);
    let rem = t.rem_euclid(86400);
    let (y, m, d) = civil_from_days(days);
    format!(
        "{:04}-{:02}-{:02}T{:02}:{:02}:{:02}",
        y,
        m,
        d,
        rem / 3600,
        (rem % 3600) / 60,
        rem % 60
    )
}

#[cfg(test)]
mod tests {
    use super::*;
    #[test]
    fn roundtrip() {
        for s in [
            "2023-07-24T12:00:00",
            "1970-01-01T00:00:00",
            "2024-02-29T23:59:59",
            "2000-12-31T06:07:08",
        ] {
            assert_eq!(format(parse(s).unwrap()), s);
        }
        assert_eq!(parse("1970-01-02T00:00:00").unwrap(), 86400);
        assert_eq!(parse("2023-7-24T6:00:00").unwrap(), parse("2023-07-24T06:00:00").unwrap());
        assert_eq!(parse("2023-07-24T06:00").unwrap(), parse("2023-07-24T06:00:00Z").unwrap());
    }
}
