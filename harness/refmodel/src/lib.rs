//! Independent reference model of the rolling-stock scheduling semantics.
//!
//! This crate never links the repository under test. It parses the input JSON itself
//! and implements the documented rules in the most naive way possible. Every monitor
//! compares what the real code did against these functions.

pub mod flow;
pub mod inst;
pub mod output;
pub mod time;
pub mod tourref;

pub use inst::{Inst, N};

/// one finding of an oracle: which property clause failed and a human readable detail
#[derive(Clone, Debug)]
pub struct Finding {
    pub prop: &'static str,
    pub clause: String,
    pub detail: String,
}

impl Finding {
    pub fn new(prop: &'static str, clause: &str, detail: String) -> Finding {
        Finding {
            prop,
            clause: clause.to_string(),
            detail,
        }
    }
}

/// conventions adopted from the code where README and property text are silent
/// (repeated in every evidence file)
pub const ASSUMPTIONS: &[&str] = &[
    "a departure segment with passengers = 0 counts as 1 passenger",
    "planning horizon = (latest end - earliest start over all segments and slots) rounded up to whole days; a leg to/from the overflow depot (OVERFLOW_DEPOT at NOWHERE) costs one horizon of dead-head seconds",
    "a tour with a leg at the overflow depot has infinite dead-head distance as cache value and counts 10000 km as its whole distance in maintenance counters; a depot-to-depot transfer touching the overflow depot counts 10000 km",
    "staff term = staff cost x number of departure segments, independent of durations",
    "a dead-head is charged travel seconds only (shunting is neither dead-head nor idle cost); idle = gap - travel seconds, never negative, zero next to depots",
    "default depots are named depot_<location> and are unlimited",
    "a vehicle's maintenance counter = service + dead-head distance of its tour minus one maximalDistance iff it visits >= 1 slot; without a maintenance parameter the allowance is 0",
    "dead-head matrices have a zero diagonal (generator domain)",
    "dead-head durations longer than the planning horizon count as one horizon, dead-head distances above 1000 km as 1000 km (the loader's announced clamps)",
    "reference model (refmodel crate), serde_json, Rust toolchain are trusted",
];
