//! The instance as the reference model sees it, parsed from the input JSON only.

use crate::time;
use serde_json::Value;
use std::collections::HashMap;

pub const INF_DISTANCE: i64 = 10_000_000; // 10000 km in meter
pub const MAX_DISTANCE: i64 = 1_000_000; // dead-head distances above 1000 km are reduced to it
pub const OVERFLOW_DEPOT: &str = "OVERFLOW_DEPOT";
pub const NOWHERE: &str = "NOWHERE";

#[derive(Clone, Debug)]
pub struct VType {
    pub id: String,
    pub capacity: u64,
    pub seats: u64,
    pub limit: Option<u64>,
}

#[derive(Clone, Copy, Debug, PartialEq, Eq)]
pub enum DepotKind {
    Given,
    Default,
    Overflow,
}

#[derive(Clone, Debug)]
pub struct Depot {
    pub id: String,
    /// None = NOWHERE (only the overflow depot)
    pub loc: Option<usize>,
    /// None = unlimited
    pub capacity: Option<u64>,
    /// per type: None = type not allowed; Some(None) = no type specific limit
    pub allowed: Vec<Option<Option<u64>>>,
    pub kind: DepotKind,
}

impl Depot {
    /// how many vehicles of the type may start here; None = unlimited
    pub fn cap_for(&self, t: usize) -> Option<u64> {
        match self.kind {
            DepotKind::Given => match self.allowed[t] {
                None => Some(0),
                Some(None) => self.capacity,
                Some(Some(c)) => Some(match self.capacity {
                    Some(tot) => c.min(tot),
                    None => c,
                }),
            },
            _ => None,
        }
    }
}

#[derive(Clone, Debug)]
pub struct Trip {
    pub id: String,
    pub departure_id: String,
    pub route_id: String,
    pub route_segment_id: String,
    pub vtype: usize,
    pub origin: usize,
    pub dest: usize,
    pub dep: i64,
    pub arr: i64,
    pub dist: u64,
    pub passengers_raw: u64,
    /// zero counted as one
    pub passengers: u64,
    pub seated: u64,
    pub seg_limit: Option<u64>,
}

#[derive(Clone, Debug)]
pub struct Slot {
    pub id: String,
    pub loc: usize,
    pub start: i64,
    pub end: i64,
    pub tracks: u64,
}

#[derive(Clone, Debug, Default)]
pub struct Costs {
    pub staff: u64,
    pub service: u64,
    pub maintenance: u64,
    pub dead_head: u64,
    pub idle: u64,
}

/// node of the reference model: start depot, end depot, trip (departure segment), slot
#[derive(Clone, Copy, Debug, PartialEq, Eq, Hash, PartialOrd, Ord)]
pub enum N {
    SD(usize),
    ED(usize),
    T(usize),
    S(usize),
}

impl N {
    pub fn is_depot(&self) -> bool {
        matches!(self, N::SD(_) | N::ED(_))
    }
    pub fn is_activity(&self) -> bool {
        !self.is_depot()
    }
}

#[derive(Clone, Debug)]
pub struct Inst {
    pub types: Vec<VType>,
    pub locs: Vec<String>,
    /// given or default depots, the overflow depot is always last
    pub depots: Vec<Depot>,
    pub depots_given: bool,
    pub trips: Vec<Trip>,
    pub slots: Vec<Slot>,
    pub slots_given: bool,
    /// matrices indexed by location index (already mapped through "indices")
    pub dh_dur: Vec<Vec<i64>>,
    pub dh_dist: Vec<Vec<i64>>,
    pub forbid: bool,
    pub shunt_min: i64,
    pub shunt_dh: i64,
    pub max_dist: i64,
    pub costs: Costs,
    /// planning horizon in seconds (multiple of a day)
    pub horizon: i64,
    pub type_by_id: HashMap<String, usize>,
    pub loc_by_id: HashMap<String, usize>,
    pub depot_by_id: HashMap<String, usize>,
    pub trip_by_id: HashMap<String, usize>,
    pub slot_by_id: HashMap<String, usize>,
}

fn s(v: &Value, k: &str) -> Result<String, String> {
    v.get(k)
        .and_then(|x| x.as_str())
        .map(|x| x.to_string())
        .ok_or_else(|| format!("missing string field '{}' in {}", k, v))
}
fn u(v: &Value, k: &str) -> Result<u64, String> {
    v.get(k)
        .and_then(|x| x.as_u64())
        .ok_or_else(|| format!("missing integer field '{}' in {}", k, v))
}
fn ou(v: &Value, k: &str) -> Option<u64> {
    v.get(k).and_then(|x| x.as_u64())
}
fn arr<'a>(v: &'a Value, k: &str) -> Result<&'a Vec<Value>, String> {
    v.get(k)
        .and_then(|x| x.as_array())
        .ok_or_else(|| format!("missing array field '{}'", k))
}

impl Inst {
    pub fn parse(j: &Value) -> Result<Inst, String> {
        let mut types = Vec::new();
        let mut type_by_id = HashMap::new();
        for t in arr(j, "vehicleTypes")? {
            let id = s(t, "id")?;
            type_by_id.insert(id.clone(), types.len());
            types.push(VType {
                id,
                capacity: u(t, "capacity")?,
                seats: u(t, "seats")?,
                limit: ou(t, "maximalFormationCount"),
            });
        }
        let mut locs = Vec::new();
        let mut loc_by_id = HashMap::new();
        for l in arr(j, "locations")? {
            let id = s(l, "id")?;
            loc_by_id.insert(id.clone(), locs.len());
            locs.push(id);
        }
        let loc = |id: &str| -> Result<usize, String> {
            loc_by_id
                .get(id)
                .copied()
                .ok_or_else(|| format!("unknown location '{}'", id))
        };

        // dead-head matrices
        let dh = j.get("deadHeadTrips").ok_or("missing deadHeadTrips")?;
        let indices: Vec<usize> = arr(dh, "indices")?
            .iter()
            .map(|x| loc(x.as_str().unwrap_or("")))
            .collect::<Result<_, _>>()?;
        let n = locs.len();
        let mut dh_dur = vec![vec![0i64; n]; n];
        let mut dh_dist = vec![vec![0i64; n]; n];
        let durs = arr(dh, "durations")?;
        let dists = arr(dh, "distances")?;
        for (i, &li) in indices.iter().enumerate() {
            for (k, &lk) in indices.iter().enumerate() {
                dh_dur[li][lk] = durs[i][k].as_i64().ok_or("bad duration")?;
                dh_dist[li][lk] = dists[i][k].as_i64().ok_or("bad distance")?;
            }
        }

        // routes
        struct RSeg {
            origin: usize,
            dest: usize,
            dist: u64,
            dur: u64,
            limit: Option<u64>,
        }
        let mut routes: HashMap<String, (usize, HashMap<String, RSeg>)> = HashMap::new();
        for r in arr(j, "routes")? {
            let vt = *type_by_id
                .get(&s(r, "vehicleType")?)
                .ok_or("unknown vehicle type in route")?;
            let mut segs = HashMap::new();
            for sg in arr(r, "segments")? {
                segs.insert(
                    s(sg, "id")?,
                    RSeg {
                        origin: loc(&s(sg, "origin")?)?,
                        dest: loc(&s(sg, "destination")?)?,
                        dist: u(sg, "distance")?,
                        dur: u(sg, "duration")?,
                        limit: ou(sg, "maximalFormationCount"),
                    },
                );
            }
            routes.insert(s(r, "id")?, (vt, segs));
        }

        let mut trips = Vec::new();
        let mut trip_by_id = HashMap::new();
        for d in arr(j, "departures")? {
            let rid = s(d, "route")?;
            let (vt, segs) = routes.get(&rid).ok_or("unknown route")?;
            for ds in arr(d, "segments")? {
                let rsid = s(ds, "routeSegment")?;
                let rs = segs.get(&rsid).ok_or("unknown route segment")?;
                let dep = time::parse(&s(ds, "departure")?)?;
                let p = u(ds, "passengers")?;
                let id = s(ds, "id")?;
                trip_by_id.insert(id.clone(), trips.len());
                trips.push(Trip {
                    id,
                    departure_id: s(d, "id")?,
                    route_id: rid.clone(),
                    route_segment_id: rsid,
                    vtype: *vt,
                    origin: rs.origin,
                    dest: rs.dest,
                    dep,
                    arr: dep + rs.dur as i64,
                    dist: rs.dist,
                    passengers_raw: p,
                    passengers: p.max(1),
                    seated: u(ds, "seated")?,
                    seg_limit: rs.limit,
                });
            }
        }

        let mut slots = Vec::new();
        let mut slot_by_id = HashMap::new();
        let slots_given = j.get("maintenanceSlots").map(|x| x.is_array()).unwrap_or(false);
        if slots_given {
            for m in arr(j, "maintenanceSlots")? {
                let id = s(m, "id")?;
                slot_by_id.insert(id.clone(), slots.len());
                slots.push(Slot {
                    id,
                    loc: loc(&s(m, "location")?)?,
                    start: time::parse(&s(m, "start")?)?,
                    end: time::parse(&s(m, "end")?)?,
                    tracks: u(m, "trackCount")?,
                });
            }
        }

        // depots
        let mut depots = Vec::new();
        let depots_given = j.get("depots").map(|x| x.is_array()).unwrap_or(false);
        if depots_given {
            for d in arr(j, "depots")? {
                let mut allowed = vec![None; types.len()];
                for a in arr(d, "allowedTypes")? {
                    let t = *type_by_id
                        .get(&s(a, "vehicleType")?)
                        .ok_or("unknown type in depot")?;
                    allowed[t] = Some(ou(a, "capacity"));
                }
                depots.push(Depot {
                    id: s(d, "id")?,
                    loc: Some(loc(&s(d, "location")?)?),
                    capacity: Some(u(d, "capacity")?),
                    allowed,
                    kind: DepotKind::Given,
                });
            }
        } else {
            for (i, l) in locs.iter().enumerate() {
                depots.push(Depot {
                    id: format!("depot_{}", l),
                    loc: Some(i),
                    capacity: None,
                    allowed: vec![Some(None); types.len()],
                    kind: DepotKind::Default,
                });
            }
        }
        depots.push(Depot {
            id: OVERFLOW_DEPOT.to_string(),
            loc: None,
            capacity: None,
            allowed: vec![Some(None); types.len()],
            kind: DepotKind::Overflow,
        });
        let depot_by_id = depots
            .iter()
            .enumerate()
            .map(|(i, d)| (d.id.clone(), i))
            .collect();

        let p = j.get("parameters").ok_or("missing parameters")?;
        let sh = p.get("shunting").ok_or("missing shunting")?;
        let c = p.get("costs").ok_or("missing costs")?;
        let costs = Costs {
            staff: u(c, "staff")?,
            service: u(c, "serviceTrip")?,
            maintenance: ou(c, "maintenance").unwrap_or(0),
            dead_head: u(c, "deadHeadTrip")?,
            idle: u(c, "idle")?,
        };
        let max_dist = p
            .get("maintenance")
            .and_then(|m| m.get("maximalDistance"))
            .and_then(|x| x.as_i64())
            .unwrap_or(0);

        let mut earliest = i64::MAX;
        let mut latest = i64::MIN;
        for t in &trips {
            earliest = earliest.min(t.dep);
            latest = latest.max(t.arr);
        }
        for m in &slots {
            earliest = earliest.min(m.start);
            latest = latest.max(m.end);
        }
        let span = if trips.is_empty() && slots.is_empty() {
            0
        } else {
            latest - earliest
        };
        let horizon = (span + 86399) / 86400 * 86400;
        // the loader's documented clamps: a dead-head trip never takes longer than the planning
        // horizon and is never longer than 1000 km
        let mut dh_dur = dh_dur;
        let mut dh_dist = dh_dist;
        for row in dh_dur.iter_mut() {
            for d in row.iter_mut() {
                *d = (*d).min(horizon);
            }
        }
        for row in dh_dist.iter_mut() {
            for d in row.iter_mut() {
                *d = (*d).min(MAX_DISTANCE);
            }
        }

        Ok(Inst {
            types,
            locs,
            depots,
            depots_given,
            trips,
            slots,
            slots_given,
            dh_dur,
            dh_dist,
            forbid: p
                .get("forbidDeadHeadTrips")
                .and_then(|x| x.as_bool())
                .unwrap_or(false),
            shunt_min: u(sh, "minimalDuration")? as i64,
            shunt_dh: u(sh, "deadHeadTripDuration")? as i64,
            max_dist,
            costs,
            horizon,
            type_by_id,
            loc_by_id,
            depot_by_id,
            trip_by_id,
            slot_by_id,
        })
    }

    pub fn overflow(&self) -> usize {
        self.depots.len() - 1
    }

    pub fn loc_name(&self, l: Option<usize>) -> &str {
        match l {
            Some(i) => &self.locs[i],
            None => NOWHERE,
        }
    }

    pub fn node_id(&self, n: N) -> String {
        match n {
            N::SD(d) => format!("s_{}", self.depots[d].id),
            N::ED(d) => format!("e_{}", self.depots[d].id),
            N::T(i) => self.trips[i].id.clone(),
            N::S(i) => self.slots[i].id.clone(),
        }
    }

    /// start time of an activity (depots have none)
    pub fn start(&self, n: N) -> i64 {
        match n {
            N::T(i) => self.trips[i].dep,
            N::S(i) => self.slots[i].start,
            N::SD(_) => i64::MIN,
            N::ED(_) => i64::MAX,
        }
    }
    pub fn end(&self, n: N) -> i64 {
        match n {
            N::T(i) => self.trips[i].arr,
            N::S(i) => self.slots[i].end,
            N::SD(_) => i64::MIN,
            N::ED(_) => i64::MAX,
        }
    }
    pub fn duration(&self, n: N) -> i64 {
        if n.is_depot() {
            0
        } else {
            self.end(n) - self.start(n)
        }
    }
    /// None = NOWHERE
    pub fn start_loc(&self, n: N) -> Option<usize> {
        match n {
            N::T(i) => Some(self.trips[i].origin),
            N::S(i) => Some(self.slots[i].loc),
            N::SD(d) | N::ED(d) => self.depots[d].loc,
        }
    }
    pub fn end_loc(&self, n: N) -> Option<usize> {
        match n {
            N::T(i) => Some(self.trips[i].dest),
            N::S(i) => Some(self.slots[i].loc),
            N::SD(d) | N::ED(d) => self.depots[d].loc,
        }
    }

    /// travel seconds between two locations; None = infinite (NOWHERE involved)
    pub fn travel(&self, a: Option<usize>, b: Option<usize>) -> Option<i64> {
        match (a, b) {
            (Some(x), Some(y)) => Some(if x == y { 0 } else { self.dh_dur[x][y] }),
            _ => None,
        }
    }
    /// dead-head meters between two locations; None = infinite
    pub fn dist(&self, a: Option<usize>, b: Option<usize>) -> Option<i64> {
        match (a, b) {
            (Some(x), Some(y)) => Some(if x == y { 0 } else { self.dh_dist[x][y] }),
            _ => None,
        }
    }

    /// the documented timing rule
    pub fn connectable(&self, a: N, b: N) -> bool {
        if matches!(b, N::SD(_)) || matches!(a, N::ED(_)) {
            return false;
        }
        if matches!(a, N::SD(_)) || matches!(b, N::ED(_)) {
            return true;
        }
        let la = self.end_loc(a).unwrap();
        let lb = self.start_loc(b).unwrap();
        if la == lb {
            self.end(a) + self.shunt_min <= self.start(b)
        } else {
            if self.forbid {
                return false;
            }
            self.end(a) + self.dh_dur[la][lb] + 2 * self.shunt_dh <= self.start(b)
        }
    }

    /// slack of a connectable pair of activities (0 = tie)
    pub fn slack(&self, a: N, b: N) -> Option<i64> {
        if a.is_depot() || b.is_depot() {
            return None;
        }
        let la = self.end_loc(a).unwrap();
        let lb = self.start_loc(b).unwrap();
        let need = if la == lb {
            self.shunt_min
        } else {
            self.dh_dur[la][lb] + 2 * self.shunt_dh
        };
        Some(self.start(b) - self.end(a) - need)
    }

    pub fn type_of(&self, n: N) -> Option<usize> {
        match n {
            N::T(i) => Some(self.trips[i].vtype),
            _ => None,
        }
    }

    /// applicable formation limit of a trip: the smaller of the limits that are present
    pub fn limit(&self, trip: usize) -> Option<u64> {
        let t = &self.trips[trip];
        match (self.types[t.vtype].limit, t.seg_limit) {
            (Some(a), Some(b)) => Some(a.min(b)),
            (Some(a), None) => Some(a),
            (None, Some(b)) => Some(b),
            (None, None) => None,
        }
    }

    /// vehicles required to carry passengers and seated passengers of a trip
    pub fn need(&self, trip: usize) -> u64 {
        let t = &self.trips[trip];
        let vt = &self.types[t.vtype];
        let a = (t.passengers + vt.capacity - 1) / vt.capacity;
        let b = (t.seated + vt.seats - 1) / vt.seats;
        a.max(b)
    }

    /// unserved passengers (capacity shortfall + seat shortfall) with k vehicles
    pub fn unserved_with(&self, trip: usize, k: u64) -> u64 {
        let t = &self.trips[trip];
        let vt = &self.types[t.vtype];
        t.passengers.saturating_sub(k * vt.capacity) + t.seated.saturating_sub(k * vt.seats)
    }

    /// lower bound of the unserved passengers over all schedules respecting limits
    pub fn unserved_lower_bound(&self) -> u64 {
        (0..self.trips.len())
            .map(|i| match self.limit(i) {
                Some(l) if self.need(i) > l => self.unserved_with(i, l),
                _ => 0,
            })
            .sum()
    }

    // ---------------------------------------------------------------- itinerary metrics

    /// dead-head seconds charged between two consecutive nodes
    pub fn dh_seconds(&self, a: N, b: N) -> i64 {
        self.travel(self.end_loc(a), self.start_loc(b))
            .unwrap_or(self.horizon)
    }

    pub fn idle_seconds(&self, a: N, b: N) -> i64 {
        if matches!(a, N::SD(_)) || matches!(b, N::ED(_)) {
            return 0;
        }
        if a.is_depot() || b.is_depot() {
            return 0;
        }
        let t = self.travel(self.end_loc(a), self.start_loc(b)).unwrap_or(0);
        (self.start(b) - self.end(a) - t).max(0)
    }

    pub fn activity_cost(&self, n: N) -> i128 {
        match n {
            N::T(_) => self.duration(n) as i128 * self.costs.service as i128,
            N::S(_) => self.duration(n) as i128 * self.costs.maintenance as i128,
            _ => 0,
        }
    }

    pub fn link_cost(&self, a: N, b: N) -> i128 {
        self.dh_seconds(a, b) as i128 * self.costs.dead_head as i128
            + self.idle_seconds(a, b) as i128 * self.costs.idle as i128
    }

    /// costs of a node sequence (with or without depots)
    pub fn tour_costs(&self, nodes: &[N]) -> i128 {
        let mut c: i128 = nodes.iter().map(|&n| self.activity_cost(n)).sum();
        for w in nodes.windows(2) {
            c += self.link_cost(w[0], w[1]);
        }
        c
    }

    pub fn service_distance(&self, nodes: &[N]) -> i64 {
        nodes
            .iter()
            .map(|&n| match n {
                N::T(i) => self.trips[i].dist as i64,
                _ => 0,
            })
            .sum()
    }

    /// None = infinite (some leg touches NOWHERE)
    pub fn dead_head_distance(&self, nodes: &[N]) -> Option<i64> {
        let mut sum = 0;
        for w in nodes.windows(2) {
            sum += self.dist(self.end_loc(w[0]), self.start_loc(w[1]))?;
        }
        Some(sum)
    }

    pub fn useful_duration(&self, nodes: &[N]) -> i64 {
        nodes.iter().map(|&n| self.duration(n)).sum()
    }

    pub fn visits_maintenance(&self, nodes: &[N]) -> bool {
        nodes.iter().any(|n| matches!(n, N::S(_)))
    }

    /// maintenance counter of one vehicle's tour
    pub fn tour_counter(&self, nodes: &[N]) -> i64 {
        let total = match self.dead_head_distance(nodes) {
            Some(d) => self.service_distance(nodes) + d,
            None => INF_DISTANCE,
        };
        if self.visits_maintenance(nodes) {
            total - self.max_dist
        } else {
            total
        }
    }

    /// depot-to-depot transfer meters between the end depot of one tour and the start
    /// depot of the next
    pub fn transfer(&self, end_depot: usize, start_depot: usize) -> i64 {
        self.dist(self.depots[end_depot].loc, self.depots[start_depot].loc)
            .unwrap_or(INF_DISTANCE)
    }

    /// maintenance counter of a rotation cycle; tours are complete node lists (with depots)
    pub fn cycle_counter(&self, tours: &[&[N]]) -> i64 {
        if tours.is_empty() {
            return 0;
        }
        let mut c = 0;
        for (i, t) in tours.iter().enumerate() {
            c += self.tour_counter(t);
            let next = tours[(i + 1) % tours.len()];
            let ed = match t.last() {
                Some(N::ED(d)) => *d,
                _ => panic!("tour without end depot"),
            };
            let sd = match next.first() {
                Some(N::SD(d)) => *d,
                _ => panic!("tour without start depot"),
            };
            c += self.transfer(ed, sd);
        }
        c
    }

    pub fn staff_term(&self) -> i128 {
        self.costs.staff as i128 * self.trips.len() as i128
    }

    /// all activities a vehicle of the type may perform
    pub fn activities_of_type(&self, t: usize) -> Vec<N> {
        let mut v: Vec<N> = (0..self.trips.len())
            .filter(|&i| self.trips[i].vtype == t)
            .map(N::T)
            .collect();
        v.extend((0..self.slots.len()).map(N::S));
        v
    }

    /// is a node sequence a path by the timing rule
    pub fn is_path(&self, nodes: &[N]) -> bool {
        nodes.windows(2).all(|w| self.connectable(w[0], w[1]))
    }
}
