//! Reference semantics of tour edits (C12): insert a path, remove a segment.

use crate::inst::{Inst, N};

#[derive(Clone, Debug, PartialEq, Eq)]
pub struct InsertResult {
    pub tour: Vec<N>,
    /// all nodes of the old tour that are not in the new one, in order (may contain the
    /// replaced depots)
    pub dropped: Vec<N>,
    /// the path as actually inserted (depots stripped for dummy tours)
    pub inserted: Vec<N>,
}

/// longest prefix whose last node can reach the path ++ path ++ longest suffix whose
/// first node the path can reach
pub fn insert(inst: &Inst, tour: &[N], is_dummy: bool, path: &[N]) -> InsertResult {
    let mut path: Vec<N> = path.to_vec();
    if is_dummy {
        if path.first().map(|n| n.is_depot()).unwrap_or(false) {
            path.remove(0);
        }
        if path.last().map(|n| n.is_depot()).unwrap_or(false) {
            path.pop();
        }
    }
    let first = path[0];
    let last = *path.last().unwrap();
    // p = length of the kept prefix
    let mut p = 0;
    for k in (1..=tour.len()).rev() {
        if inst.connectable(tour[k - 1], first) {
            p = k;
            break;
        }
    }
    // q = index where the kept suffix starts
    let mut q = tour.len();
    for k in 0..tour.len() {
        if inst.connectable(last, tour[k]) {
            q = k;
            break;
        }
    }
    let q = q.max(p);
    let mut new_tour = tour[..p].to_vec();
    new_tour.extend(path.iter().copied());
    new_tour.extend(tour[q..].iter().copied());
    InsertResult {
        tour: new_tour,
        dropped: tour[p..q].to_vec(),
        inserted: path,
    }
}

#[derive(Clone, Debug, PartialEq, Eq)]
pub enum RemoveResult {
    Refused(&'static str),
    /// remaining tour (None iff no activity is left) and the removed nodes
    Done(Option<Vec<N>>, Vec<N>),
}

/// remove tour[i..=j]
pub fn remove(inst: &Inst, tour: &[N], is_dummy: bool, i: usize, j: usize) -> RemoveResult {
    assert!(i <= j && j < tour.len());
    let removed: Vec<N> = tour[i..=j].to_vec();
    let mut rest: Vec<N> = tour[..i].to_vec();
    rest.extend(tour[j + 1..].iter().copied());
    if !is_dummy {
        let has_depot = removed.iter().any(|n| n.is_depot());
        let activity_left = rest.iter().any(|n| n.is_activity());
        if has_depot && activity_left {
            return RemoveResult::Refused("would strand a depot");
        }
    }
    if i > 0 && j + 1 < tour.len() && !inst.connectable(tour[i - 1], tour[j + 1]) {
        return RemoveResult::Refused("would leave an unconnectable gap");
    }
    if rest.iter().any(|n| n.is_activity()) {
        RemoveResult::Done(Some(rest), removed)
    } else {
        RemoveResult::Done(None, removed)
    }
}
