//! Oracles over (input instance, returned JSON): properties C01 – C05 and C07.
//! Everything here works on the JSON answer only.

use crate::inst::{Inst, DepotKind, N};
use crate::time::{self, T};
use crate::Finding;
use serde_json::Value;
use std::collections::{BTreeMap, HashMap, HashSet};

#[derive(Clone, Debug)]
pub struct OutDht {
    pub id: String,
    pub origin: String,
    pub destination: String,
    pub departure: String,
    pub arrival: String,
}

#[derive(Clone, Debug)]
pub struct OutVehicle {
    pub id: String,
    pub vtype: usize,
    pub start_depot: String,
    pub end_depot: String,
    /// activities resolved against the input, in merged chronological order
    pub acts: Vec<N>,
    /// ids listed that do not exist in the input
    pub unknown: Vec<String>,
    pub trips_listed_sorted: bool,
    pub slots_listed_sorted: bool,
    pub dhts: Vec<OutDht>,
    /// listed fields disagree with the input (origin/destination/times)
    pub field_mismatch: Vec<String>,
}

#[derive(Clone, Debug, Default)]
pub struct OutStats {
    pub vehicles: usize,
    pub pairs_checked: usize,
    pub pairs_loc_change: usize,
    pub pairs_zero_slack: usize,
    pub vehicles_on_overflow: usize,
    pub max_acts_per_vehicle: usize,
    pub coupled_formations: usize,
    pub dead_head_trips: usize,
    pub binding_formation_limits: usize,
    pub full_depots: usize,
    pub full_slots: usize,
    pub unserved: u64,
    pub violation: i64,
    pub idle_pairs: usize,
    pub cycles_len_ge2: usize,
    pub cycles_multi_depot: usize,
    pub singleton_cycles: usize,
    pub empty_cycles_listed: usize,
    pub segs_need_ge2: usize,
    pub segs_need_gt_limit: usize,
    pub limit_shapes: [usize; 4], // neither, type only, segment only, both (over trips)
}

pub struct Parsed {
    pub vehicles: Vec<OutVehicle>,
    pub cycles: Vec<Vec<Vec<String>>>, // per type
    pub fleet_types: Vec<Option<usize>>,
    pub findings: Vec<Finding>,
}

fn gs<'a>(v: &'a Value, k: &str) -> &'a str {
    v.get(k).and_then(|x| x.as_str()).unwrap_or("")
}
fn ga<'a>(v: &'a Value, k: &str) -> &'a [Value] {
    static EMPTY: Vec<Value> = Vec::new();
    v.get(k)
        .and_then(|x| x.as_array())
        .map(|x| x.as_slice())
        .unwrap_or(EMPTY.as_slice())
}

fn same_instant(listed: &str, t: i64) -> bool {
    time::parse(listed).map(|x| x == t).unwrap_or(false)
}

pub fn parse_vehicles(inst: &Inst, out: &Value) -> Parsed {
    let mut findings = Vec::new();
    let mut vehicles = Vec::new();
    let mut cycles = vec![Vec::new(); inst.types.len()];
    let mut fleet_types = Vec::new();
    let sched = out.get("schedule").cloned().unwrap_or(Value::Null);
    for fleet in ga(&sched, "fleet") {
        let tname = gs(fleet, "vehicleType");
        let t = inst.type_by_id.get(tname).copied();
        fleet_types.push(t);
        let t = match t {
            Some(t) => t,
            None => {
                findings.push(Finding::new(
                    "C03",
                    "fleet.unknown_type",
                    format!("fleet lists unknown vehicle type '{}'", tname),
                ));
                continue;
            }
        };
        for cyc in ga(fleet, "vehicleCycles") {
            cycles[t].push(
                cyc.as_array()
                    .map(|a| {
                        a.iter()
                            .map(|x| x.as_str().unwrap_or("").to_string())
                            .collect()
                    })
                    .unwrap_or_default(),
            );
        }
        for v in ga(fleet, "vehicles") {
            let mut acts: Vec<N> = Vec::new();
            let mut unknown = Vec::new();
            let mut field_mismatch = Vec::new();
            let mut trips_sorted = true;
            let mut last = i64::MIN;
            for ds in ga(v, "departureSegments") {
                let id = gs(ds, "departureSegment");
                match inst.trip_by_id.get(id) {
                    Some(&i) => {
                        let tr = &inst.trips[i];
                        if tr.dep < last {
                            trips_sorted = false;
                        }
                        last = tr.dep;
                        if gs(ds, "origin") != inst.locs[tr.origin]
                            || gs(ds, "destination") != inst.locs[tr.dest]
                            || !same_instant(gs(ds, "departure"), tr.dep)
                            || !same_instant(gs(ds, "arrival"), tr.arr)
                        {
                            field_mismatch.push(id.to_string());
                        }
                        acts.push(N::T(i));
                    }
                    None => unknown.push(id.to_string()),
                }
            }
            let mut slots_sorted = true;
            let mut last = i64::MIN;
            for ms in ga(v, "maintenanceSlots") {
                let id = gs(ms, "maintenanceSlot");
                match inst.slot_by_id.get(id) {
                    Some(&i) => {
                        let sl = &inst.slots[i];
                        if sl.start < last {
                            slots_sorted = false;
                        }
                        last = sl.start;
                        if gs(ms, "location") != inst.locs[sl.loc]
                            || !same_instant(gs(ms, "start"), sl.start)
                            || !same_instant(gs(ms, "end"), sl.end)
                        {
                            field_mismatch.push(id.to_string());
                        }
                        acts.push(N::S(i));
                    }
                    None => unknown.push(id.to_string()),
                }
            }
            acts.sort_by_key(|&n| (inst.start(n), inst.end(n), n));
            let dhts = ga(v, "deadHeadTrips")
                .iter()
                .map(|d| OutDht {
                    id: gs(d, "id").to_string(),
                    origin: gs(d, "origin").to_string(),
                    destination: gs(d, "destination").to_string(),
                    departure: gs(d, "departure").to_string(),
                    arrival: gs(d, "arrival").to_string(),
                })
                .collect();
            vehicles.push(OutVehicle {
                id: gs(v, "id").to_string(),
                vtype: t,
                start_depot: gs(v, "startDepot").to_string(),
                end_depot: gs(v, "endDepot").to_string(),
                acts,
                unknown,
                trips_listed_sorted: trips_sorted,
                slots_listed_sorted: slots_sorted,
                dhts,
                field_mismatch,
            });
        }
    }
    Parsed {
        vehicles,
        cycles,
        fleet_types,
        findings,
    }
}

/// full node list (with depots) of an output vehicle, if its depots resolve
pub fn full_tour(inst: &Inst, v: &OutVehicle) -> Option<Vec<N>> {
    let sd = *inst.depot_by_id.get(&v.start_depot)?;
    let ed = *inst.depot_by_id.get(&v.end_depot)?;
    let mut nodes = vec![N::SD(sd)];
    nodes.extend(v.acts.iter().copied());
    nodes.push(N::ED(ed));
    Some(nodes)
}

pub struct Report {
    pub findings: Vec<Finding>,
    pub stats: OutStats,
}

/// run all JSON-level oracles
pub fn check_output(inst: &Inst, out: &Value) -> Report {
    let mut f: Vec<Finding> = Vec::new();
    let mut st = OutStats::default();
    let parsed = parse_vehicles(inst, out);
    f.extend(parsed.findings.iter().cloned());
    let vehicles = &parsed.vehicles;
    let sched = out.get("schedule").cloned().unwrap_or(Value::Null);
    st.vehicles = vehicles.len();

    // ------------------------------------------------------------------ C01
    let mut ids_seen: HashSet<&str> = HashSet::new();
    for v in vehicles {
        if !ids_seen.insert(&v.id) {
            f.push(Finding::new(
                "C03",
                "vehicle.duplicate_id",
                format!("vehicle id {} listed twice", v.id),
            ));
        }
        let sd = inst.depot_by_id.get(&v.start_depot).copied();
        let ed = inst.depot_by_id.get(&v.end_depot).copied();
        if sd.is_none() {
            f.push(Finding::new(
                "C01",
                "itinerary.start_depot_unknown",
                format!("{} starts at '{}' which is no depot of the instance", v.id, v.start_depot),
            ));
        }
        if ed.is_none() {
            f.push(Finding::new(
                "C01",
                "itinerary.end_depot_unknown",
                format!("{} ends at '{}' which is no depot of the instance", v.id, v.end_depot),
            ));
        }
        if sd == Some(inst.overflow()) || ed == Some(inst.overflow()) {
            st.vehicles_on_overflow += 1;
        }
        if v.acts.is_empty() && v.unknown.is_empty() {
            f.push(Finding::new(
                "C01",
                "itinerary.empty",
                format!("{} has no service trip and no maintenance slot", v.id),
            ));
        }
        if !v.trips_listed_sorted || !v.slots_listed_sorted {
            f.push(Finding::new(
                "C01",
                "itinerary.not_chronological",
                format!("{} lists its activities out of chronological order", v.id),
            ));
        }
        st.max_acts_per_vehicle = st.max_acts_per_vehicle.max(v.acts.len());
        for w in v.acts.windows(2) {
            st.pairs_checked += 1;
            if inst.end_loc(w[0]) != inst.start_loc(w[1]) {
                st.pairs_loc_change += 1;
            }
            if inst.slack(w[0], w[1]) == Some(0) {
                st.pairs_zero_slack += 1;
            }
            if inst.idle_seconds(w[0], w[1]) > 0 {
                st.idle_pairs += 1;
            }
            if !inst.connectable(w[0], w[1]) {
                f.push(Finding::new(
                    "C01",
                    "itinerary.pair_not_connectable",
                    format!(
                        "{}: {} (ends {} at {}) cannot be followed by {} (starts {} at {}), slack {:?}, forbid={}",
                        v.id,
                        inst.node_id(w[0]),
                        time::format(inst.end(w[0])),
                        inst.loc_name(inst.end_loc(w[0])),
                        inst.node_id(w[1]),
                        time::format(inst.start(w[1])),
                        inst.loc_name(inst.start_loc(w[1])),
                        inst.slack(w[0], w[1]),
                        inst.forbid
                    ),
                ));
            }
        }
        for &n in &v.acts {
            if let N::T(i) = n {
                if inst.trips[i].vtype != v.vtype {
                    f.push(Finding::new(
                        "C01",
                        "itinerary.wrong_type",
                        format!(
                            "{} of type {} serves {} whose route prescribes {}",
                            v.id,
                            inst.types[v.vtype].id,
                            inst.trips[i].id,
                            inst.types[inst.trips[i].vtype].id
                        ),
                    ));
                }
            }
        }
        for u in &v.unknown {
            f.push(Finding::new(
                "C03",
                "vehicle.unknown_activity",
                format!("{} lists '{}' which is not in the input", v.id, u),
            ));
        }
        for u in &v.field_mismatch {
            f.push(Finding::new(
                "C03",
                "vehicle.activity_fields",
                format!("{} lists '{}' with origin/destination/times differing from the input", v.id, u),
            ));
        }
    }

    // formations by the vehicle view
    let mut veh_formation: HashMap<N, Vec<&str>> = HashMap::new();
    for v in vehicles {
        for &n in &v.acts {
            veh_formation.entry(n).or_default().push(&v.id);
        }
    }

    // ------------------------------------------------------------------ trip view, C03 + C02 + C07
    let mut listed_trips: HashMap<usize, usize> = HashMap::new();
    let mut trip_view_formation: HashMap<N, Vec<String>> = HashMap::new();
    for ds in ga(&sched, "departureSegments") {
        let id = gs(ds, "departureSegment");
        match inst.trip_by_id.get(id) {
            None => f.push(Finding::new(
                "C03",
                "tripview.unknown_segment",
                format!("trip view lists '{}' which is not in the input", id),
            )),
            Some(&i) => {
                *listed_trips.entry(i).or_default() += 1;
                let tr = &inst.trips[i];
                if gs(ds, "origin") != inst.locs[tr.origin]
                    || gs(ds, "destination") != inst.locs[tr.dest]
                    || !same_instant(gs(ds, "departure"), tr.dep)
                    || !same_instant(gs(ds, "arrival"), tr.arr)
                {
                    f.push(Finding::new(
                        "C03",
                        "tripview.segment_fields",
                        format!(
                            "{}: listed {}->{} {}..{} but input says {}->{} {}..{}",
                            id,
                            gs(ds, "origin"),
                            gs(ds, "destination"),
                            gs(ds, "departure"),
                            gs(ds, "arrival"),
                            inst.locs[tr.origin],
                            inst.locs[tr.dest],
                            time::format(tr.dep),
                            time::format(tr.arr)
                        ),
                    ));
                }
                if gs(ds, "vehicleType") != inst.types[tr.vtype].id {
                    f.push(Finding::new(
                        "C03",
                        "tripview.segment_type",
                        format!("{}: listed type {} but route prescribes {}", id, gs(ds, "vehicleType"), inst.types[tr.vtype].id),
                    ));
                }
                let form: Vec<String> = ga(ds, "formation")
                    .iter()
                    .map(|x| x.as_str().unwrap_or("").to_string())
                    .collect();
                trip_view_formation.insert(N::T(i), form);
            }
        }
    }
    for i in 0..inst.trips.len() {
        let c = listed_trips.get(&i).copied().unwrap_or(0);
        if c != 1 {
            f.push(Finding::new(
                "C03",
                "tripview.segment_count",
                format!("departure segment {} is listed {} times in the trip view", inst.trips[i].id, c),
            ));
        }
    }
    let mut listed_slots: HashMap<usize, usize> = HashMap::new();
    for ms in ga(&sched, "maintenanceSlots") {
        let id = gs(ms, "maintenanceSlot");
        match inst.slot_by_id.get(id) {
            None => f.push(Finding::new(
                "C03",
                "tripview.unknown_slot",
                format!("trip view lists slot '{}' which is not in the input", id),
            )),
            Some(&i) => {
                *listed_slots.entry(i).or_default() += 1;
                let sl = &inst.slots[i];
                if gs(ms, "location") != inst.locs[sl.loc]
                    || !same_instant(gs(ms, "start"), sl.start)
                    || !same_instant(gs(ms, "end"), sl.end)
                {
                    f.push(Finding::new(
                        "C03",
                        "tripview.slot_fields",
                        format!("slot {} listed with location/times differing from the input", id),
                    ));
                }
                let form: Vec<String> = ga(ms, "formation")
                    .iter()
                    .map(|x| x.as_str().unwrap_or("").to_string())
                    .collect();
                trip_view_formation.insert(N::S(i), form);
            }
        }
    }
    for i in 0..inst.slots.len() {
        let c = listed_slots.get(&i).copied().unwrap_or(0);
        if c != 1 {
            f.push(Finding::new(
                "C03",
                "tripview.slot_count",
                format!("maintenance slot {} is listed {} times in the trip view", inst.slots[i].id, c),
            ));
        }
    }
    // formation agreement
    let all_nodes: Vec<N> = (0..inst.trips.len())
        .map(N::T)
        .chain((0..inst.slots.len()).map(N::S))
        .collect();
    for &n in &all_nodes {
        let empty: Vec<String> = Vec::new();
        let tv = trip_view_formation.get(&n).unwrap_or(&empty);
        let tv_set: HashSet<&str> = tv.iter().map(|x| x.as_str()).collect();
        if tv_set.len() != tv.len() {
            f.push(Finding::new(
                "C03",
                "formation.duplicate_vehicle",
                format!("formation of {} lists a vehicle twice: {:?}", inst.node_id(n), tv),
            ));
        }
        let vv: HashSet<&str> = veh_formation
            .get(&n)
            .map(|x| x.iter().copied().collect())
            .unwrap_or_default();
        let vv_len = veh_formation.get(&n).map(|x| x.len()).unwrap_or(0);
        if vv.len() != vv_len {
            f.push(Finding::new(
                "C03",
                "vehicle.activity_twice",
                format!("a vehicle lists {} twice in its itinerary", inst.node_id(n)),
            ));
        }
        if tv_set != vv {
            let mut a: Vec<&str> = tv_set.iter().copied().collect();
            a.sort();
            let mut b: Vec<&str> = vv.iter().copied().collect();
            b.sort();
            f.push(Finding::new(
                "C03",
                "formation.views_disagree",
                format!("{}: trip view formation {:?} but vehicles whose itinerary contains it {:?}", inst.node_id(n), a, b),
            ));
        }
        if tv.len() >= 2 {
            st.coupled_formations += 1;
        }
    }

    // ------------------------------------------------------------------ C02 formation / track limits
    for i in 0..inst.trips.len() {
        let n = N::T(i);
        let k = trip_view_formation
            .get(&n)
            .map(|x| x.len())
            .unwrap_or(0)
            .max(veh_formation.get(&n).map(|x| x.len()).unwrap_or(0)) as u64;
        let shape = match (inst.types[inst.trips[i].vtype].limit, inst.trips[i].seg_limit) {
            (None, None) => 0,
            (Some(_), None) => 1,
            (None, Some(_)) => 2,
            (Some(_), Some(_)) => 3,
        };
        st.limit_shapes[shape] += 1;
        if let Some(l) = inst.limit(i) {
            if k > l {
                f.push(Finding::new(
                    "C02",
                    &format!("formation.exceeds_limit.{}", ["none", "type_only", "segment_only", "both"][shape]),
                    format!(
                        "{} is served by {} vehicles, limit is {} (type limit {:?}, segment limit {:?})",
                        inst.trips[i].id,
                        k,
                        l,
                        inst.types[inst.trips[i].vtype].limit,
                        inst.trips[i].seg_limit
                    ),
                ));
            }
            if k == l && inst.need(i) >= l {
                st.binding_formation_limits += 1;
            }
        }
    }
    for i in 0..inst.slots.len() {
        let n = N::S(i);
        let k = trip_view_formation
            .get(&n)
            .map(|x| x.len())
            .unwrap_or(0)
            .max(veh_formation.get(&n).map(|x| x.len()).unwrap_or(0)) as u64;
        if k > inst.slots[i].tracks {
            f.push(Finding::new(
                "C02",
                "slot.exceeds_tracks",
                format!("{} hosts {} vehicles but has {} tracks", inst.slots[i].id, k, inst.slots[i].tracks),
            ));
        }
        if k == inst.slots[i].tracks {
            st.full_slots += 1;
        }
    }
    // depot limits from the vehicle view
    let mut starts: BTreeMap<(usize, usize), u64> = BTreeMap::new();
    let mut ends: BTreeMap<(usize, usize), u64> = BTreeMap::new();
    for v in vehicles {
        if let Some(&d) = inst.depot_by_id.get(&v.start_depot) {
            *starts.entry((d, v.vtype)).or_default() += 1;
        }
        if let Some(&d) = inst.depot_by_id.get(&v.end_depot) {
            *ends.entry((d, v.vtype)).or_default() += 1;
        }
    }
    for (d, depot) in inst.depots.iter().enumerate() {
        if depot.kind != DepotKind::Given {
            continue;
        }
        let total: u64 = (0..inst.types.len())
            .map(|t| starts.get(&(d, t)).copied().unwrap_or(0))
            .sum();
        if let Some(cap) = depot.capacity {
            if total > cap {
                f.push(Finding::new(
                    "C02",
                    "depot.exceeds_total",
                    format!("{} vehicles start at depot {} whose capacity is {}", total, depot.id, cap),
                ));
            }
            if total == cap && cap > 0 {
                st.full_depots += 1;
            }
        }
        for t in 0..inst.types.len() {
            let k = starts.get(&(d, t)).copied().unwrap_or(0);
            if let Some(cap) = depot.cap_for(t) {
                if k > cap {
                    f.push(Finding::new(
                        "C02",
                        if depot.allowed[t].is_none() { "depot.type_not_allowed" } else { "depot.exceeds_type_capacity" },
                        format!(
                            "{} vehicles of type {} start at depot {} which allows {}",
                            k, inst.types[t].id, depot.id, cap
                        ),
                    ));
                }
                if k == cap && cap > 0 {
                    st.full_depots += 1;
                }
            }
        }
    }

    // ------------------------------------------------------------------ C03 depot loads
    let mut listed_loads: BTreeMap<(usize, usize), u64> = BTreeMap::new();
    for dl in ga(&sched, "depotLoads") {
        let did = gs(dl, "depot");
        let d = match inst.depot_by_id.get(did) {
            Some(&d) => d,
            None => {
                if !ga(dl, "load").is_empty() {
                    f.push(Finding::new(
                        "C03",
                        "depotloads.unknown_depot",
                        format!("depotLoads lists unknown depot '{}'", did),
                    ));
                }
                continue;
            }
        };
        for l in ga(dl, "load") {
            match inst.type_by_id.get(gs(l, "vehicleType")) {
                Some(&t) => {
                    *listed_loads.entry((d, t)).or_default() +=
                        l.get("spawnCount").and_then(|x| x.as_u64()).unwrap_or(0)
                }
                None => f.push(Finding::new(
                    "C03",
                    "depotloads.unknown_type",
                    format!("depotLoads of {} lists unknown type", did),
                )),
            }
        }
    }
    for d in 0..inst.depots.len() {
        for t in 0..inst.types.len() {
            let a = listed_loads.get(&(d, t)).copied().unwrap_or(0);
            let b = starts.get(&(d, t)).copied().unwrap_or(0);
            if a != b {
                f.push(Finding::new(
                    "C03",
                    "depotloads.count",
                    format!(
                        "depotLoads says {} vehicles of type {} start at {}, the vehicle view says {}",
                        a, inst.types[t].id, inst.depots[d].id, b
                    ),
                ));
            }
        }
    }

    // ------------------------------------------------------------------ C03 dead-head trips
    let mut all_vehicle_dhts: Vec<(String, String, String, String, String, String)> = Vec::new();
    for v in vehicles {
        st.dead_head_trips += v.dhts.len();
        for d in &v.dhts {
            all_vehicle_dhts.push((
                v.id.clone(),
                d.id.clone(),
                d.origin.clone(),
                d.destination.clone(),
                d.departure.clone(),
                d.arrival.clone(),
            ));
        }
        let tour = match full_tour(inst, v) {
            Some(t) => t,
            None => continue,
        };
        let mut expected: Vec<(N, N)> = Vec::new();
        for w in tour.windows(2) {
            if inst.end_loc(w[0]) != inst.start_loc(w[1]) {
                expected.push((w[0], w[1]));
            }
        }
        if expected.len() != v.dhts.len() {
            f.push(Finding::new(
                "C03",
                "deadhead.count",
                format!(
                    "{} has {} location changes but lists {} dead-head trips",
                    v.id,
                    expected.len(),
                    v.dhts.len()
                ),
            ));
            continue;
        }
        for ((a, b), d) in expected.iter().zip(v.dhts.iter()) {
            let eo = inst.loc_name(inst.end_loc(*a));
            let ed = inst.loc_name(inst.start_loc(*b));
            if d.origin != eo || d.destination != ed {
                f.push(Finding::new(
                    "C03",
                    "deadhead.endpoints",
                    format!(
                        "{}: dead-head {} goes {}->{} but the location change is {}->{}",
                        v.id, d.id, d.origin, d.destination, eo, ed
                    ),
                ));
                continue;
            }
            let dep = time::parse_t(&d.departure);
            let arr = time::parse_t(&d.arrival);
            match (dep, arr) {
                (Ok(dep), Ok(arr)) => {
                    let mut bad = dep > arr;
                    if a.is_activity() && dep < T::At(inst.end(*a)) {
                        bad = true;
                    }
                    if b.is_activity() && arr > T::At(inst.start(*b)) {
                        bad = true;
                    }
                    if bad {
                        f.push(Finding::new(
                            "C03",
                            "deadhead.outside_gap",
                            format!(
                                "{}: dead-head {} {}..{} does not lie inside the gap between {} and {}",
                                v.id,
                                d.id,
                                d.departure,
                                d.arrival,
                                inst.node_id(*a),
                                inst.node_id(*b)
                            ),
                        ));
                    }
                }
                _ => f.push(Finding::new(
                    "C03",
                    "deadhead.bad_time",
                    format!("{}: dead-head {} has unparsable times", v.id, d.id),
                )),
            }
        }
    }
    // the global list is the concatenation of the per-vehicle lists
    let mut global: Vec<(String, String, String, String, String, String)> = Vec::new();
    for d in ga(&sched, "deadHeadTrips") {
        let form = ga(d, "formation");
        let veh = if form.len() == 1 {
            form[0].as_str().unwrap_or("").to_string()
        } else {
            format!("{:?}", form)
        };
        global.push((
            veh,
            gs(d, "id").to_string(),
            gs(d, "origin").to_string(),
            gs(d, "destination").to_string(),
            gs(d, "departure").to_string(),
            gs(d, "arrival").to_string(),
        ));
    }
    let mut a = all_vehicle_dhts.clone();
    a.sort();
    let mut b = global.clone();
    b.sort();
    if a != b {
        f.push(Finding::new(
            "C03",
            "deadhead.global_list",
            format!(
                "global dead-head list ({} entries) is not the union of the per-vehicle lists ({} entries)",
                b.len(),
                a.len()
            ),
        ));
    }

    // ------------------------------------------------------------------ C05 cycles
    let by_id: HashMap<&str, &OutVehicle> = vehicles.iter().map(|v| (v.id.as_str(), v)).collect();
    let mut violation_total: i64 = 0;
    for t in 0..inst.types.len() {
        let of_type: HashSet<&str> = vehicles
            .iter()
            .filter(|v| v.vtype == t)
            .map(|v| v.id.as_str())
            .collect();
        let mut seen: HashMap<&str, usize> = HashMap::new();
        for cyc in &parsed.cycles[t] {
            if cyc.is_empty() {
                st.empty_cycles_listed += 1;
                continue;
            }
            if cyc.len() == 1 {
                st.singleton_cycles += 1;
            }
            if cyc.len() >= 2 {
                st.cycles_len_ge2 += 1;
                let starts: HashSet<&str> = cyc
                    .iter()
                    .filter_map(|id| by_id.get(id.as_str()).map(|v| v.start_depot.as_str()))
                    .collect();
                if starts.len() >= 2 {
                    st.cycles_multi_depot += 1;
                }
            }
            for id in cyc {
                *seen.entry(id.as_str()).or_default() += 1;
                if !of_type.contains(id.as_str()) {
                    f.push(Finding::new(
                        "C05",
                        "cycles.foreign_vehicle",
                        format!("cycle of type {} contains '{}' which is no vehicle of that type", inst.types[t].id, id),
                    ));
                }
            }
            // successor depots
            let mut tours: Vec<Vec<N>> = Vec::new();
            let mut complete = true;
            for (i, id) in cyc.iter().enumerate() {
                let next = &cyc[(i + 1) % cyc.len()];
                if let (Some(v), Some(nv)) = (by_id.get(id.as_str()), by_id.get(next.as_str())) {
                    if v.end_depot != nv.start_depot {
                        f.push(Finding::new(
                            "C05",
                            "cycles.end_depot_mismatch",
                            format!(
                                "{} ends in {} but its successor {} starts in {}",
                                v.id, v.end_depot, nv.id, nv.start_depot
                            ),
                        ));
                    }
                }
                match by_id.get(id.as_str()).and_then(|v| full_tour(inst, v)) {
                    Some(tour) => tours.push(tour),
                    None => complete = false,
                }
            }
            if complete {
                let refs: Vec<&[N]> = tours.iter().map(|x| x.as_slice()).collect();
                violation_total += inst.cycle_counter(&refs).max(0);
            }
        }
        for id in &of_type {
            let c = seen.get(id).copied().unwrap_or(0);
            if c != 1 {
                f.push(Finding::new(
                    "C05",
                    "cycles.not_a_partition",
                    format!("vehicle {} of type {} occurs {} times in the reported cycles", id, inst.types[t].id, c),
                ));
            }
        }
        // balance
        for d in 0..inst.depots.len() {
            let s = starts.get(&(d, t)).copied().unwrap_or(0);
            let e = ends.get(&(d, t)).copied().unwrap_or(0);
            if s != e {
                f.push(Finding::new(
                    "C05",
                    "cycles.depot_balance",
                    format!(
                        "depot {} type {}: {} vehicles start but {} end there",
                        inst.depots[d].id, inst.types[t].id, s, e
                    ),
                ));
            }
        }
    }
    st.violation = violation_total;

    // ------------------------------------------------------------------ C07 + C04
    let mut unserved: u64 = 0;
    for i in 0..inst.trips.len() {
        let n = N::T(i);
        let k = veh_formation.get(&n).map(|x| x.len()).unwrap_or(0) as u64;
        // the formation consists of vehicles of the fleet type; use their real capacities
        let (mut cap, mut seats) = (0u64, 0u64);
        if let Some(ids) = veh_formation.get(&n) {
            for id in ids {
                if let Some(v) = by_id.get(id) {
                    cap += inst.types[v.vtype].capacity;
                    seats += inst.types[v.vtype].seats;
                }
            }
        }
        let tr = &inst.trips[i];
        unserved += tr.passengers.saturating_sub(cap) + tr.seated.saturating_sub(seats);
        let need = inst.need(i);
        if need >= 2 {
            st.segs_need_ge2 += 1;
        }
        match inst.limit(i) {
            Some(l) if need > l => {
                st.segs_need_gt_limit += 1;
                if k != l {
                    f.push(Finding::new(
                        "C07",
                        "coverage.not_at_limit",
                        format!(
                            "{} needs {} vehicles, limit {}, but is served by {}",
                            tr.id, need, l, k
                        ),
                    ));
                }
            }
            _ => {
                if k < need {
                    f.push(Finding::new(
                        "C07",
                        "coverage.below_need",
                        format!("{} needs {} vehicles but is served by {}", tr.id, need, k),
                    ));
                }
            }
        }
    }
    st.unserved = unserved;
    let ov = out.get("objectiveValue").cloned().unwrap_or(Value::Null);
    let rep_unserved = ov.get("unservedPassengers").and_then(|x| x.as_i64());
    let rep_violation = ov.get("maintenanceViolation").and_then(|x| x.as_i64());
    let rep_count = ov.get("vehicleCount").and_then(|x| x.as_i64());
    let rep_costs = ov.get("costs").and_then(|x| x.as_i64());
    let lb = inst.unserved_lower_bound();
    if rep_unserved != Some(lb as i64) {
        f.push(Finding::new(
            "C07",
            "coverage.unserved_not_lower_bound",
            format!("reported unservedPassengers {:?}, lower bound of the instance is {}", rep_unserved, lb),
        ));
    }
    if rep_unserved != Some(unserved as i64) {
        f.push(Finding::new(
            "C04",
            "objective.unserved",
            format!("reported unservedPassengers {:?}, recomputed from the schedule {}", rep_unserved, unserved),
        ));
    }
    if rep_count != Some(vehicles.len() as i64) {
        f.push(Finding::new(
            "C04",
            "objective.vehicle_count",
            format!("reported vehicleCount {:?}, schedule lists {}", rep_count, vehicles.len()),
        ));
    }
    let mut costs: i128 = inst.staff_term();
    let mut costs_complete = true;
    for v in vehicles {
        match full_tour(inst, v) {
            Some(t) => costs += inst.tour_costs(&t),
            None => costs_complete = false,
        }
    }
    if costs_complete && rep_costs.map(|x| x as i128) != Some(costs) {
        f.push(Finding::new(
            "C04",
            "objective.costs",
            format!("reported costs {:?}, recomputed from the schedule {}", rep_costs, costs),
        ));
    }
    if costs_complete && rep_violation != Some(violation_total) {
        f.push(Finding::new(
            "C04",
            "objective.maintenance_violation",
            format!(
                "reported maintenanceViolation {:?}, recomputed from the reported cycles {}",
                rep_violation, violation_total
            ),
        ));
    }

    Report { findings: f, stats: st }
}
