//! Independent minimum-cost circulation for the per-type covering problem (C14).
//! Successive shortest paths (SPFA) on lexicographic costs (vehicles, cost).

use crate::inst::{Inst, N};
use std::collections::VecDeque;

#[derive(Clone, Copy, Debug, PartialEq, Eq, PartialOrd, Ord)]
pub struct LexCost(pub i64, pub i128);

impl LexCost {
    const ZERO: LexCost = LexCost(0, 0);
    fn add(self, o: LexCost) -> LexCost {
        LexCost(self.0 + o.0, self.1 + o.1)
    }
    fn neg(self) -> LexCost {
        LexCost(-self.0, -self.1)
    }
    fn scale(self, k: i64) -> LexCost {
        LexCost(self.0 * k, self.1 * k as i128)
    }
}

struct Edge {
    to: usize,
    cap: i64,
    cost: LexCost,
}

pub struct Graph {
    edges: Vec<Edge>,
    adj: Vec<Vec<usize>>,
    excess: Vec<i64>,
    base: LexCost,
}

const INF_CAP: i64 = 1_000_000_000;

impl Graph {
    pub fn new(n: usize) -> Graph {
        Graph {
            edges: Vec::new(),
            adj: vec![Vec::new(); n],
            excess: vec![0; n],
            base: LexCost::ZERO,
        }
    }
    fn add_raw(&mut self, u: usize, v: usize, cap: i64, cost: LexCost) {
        self.adj[u].push(self.edges.len());
        self.edges.push(Edge { to: v, cap, cost });
        self.adj[v].push(self.edges.len());
        self.edges.push(Edge {
            to: u,
            cap: 0,
            cost: cost.neg(),
        });
    }
    /// arc with lower and upper bound (None = unbounded)
    pub fn add(&mut self, u: usize, v: usize, lo: i64, hi: Option<i64>, cost: LexCost) {
        let hi = hi.unwrap_or(INF_CAP);
        assert!(lo <= hi);
        if lo > 0 {
            self.excess[v] += lo;
            self.excess[u] -= lo;
            self.base = self.base.add(cost.scale(lo));
        }
        self.add_raw(u, v, hi - lo, cost);
    }

    /// min-cost circulation; None if infeasible
    pub fn solve(mut self) -> Option<LexCost> {
        let n = self.adj.len();
        let s = n;
        let t = n + 1;
        self.adj.push(Vec::new());
        self.adj.push(Vec::new());
        let mut need = 0;
        for v in 0..n {
            let e = self.excess[v];
            if e > 0 {
                self.add_raw(s, v, e, LexCost::ZERO);
                need += e;
            } else if e < 0 {
                self.add_raw(v, t, -e, LexCost::ZERO);
            }
        }
        let mut total = self.base;
        let mut sent = 0;
        let nn = n + 2;
        while sent < need {
            // SPFA
            let mut dist: Vec<Option<LexCost>> = vec![None; nn];
            let mut inq = vec![false; nn];
            let mut prev: Vec<usize> = vec![usize::MAX; nn];
            dist[s] = Some(LexCost::ZERO);
            let mut q = VecDeque::new();
            q.push_back(s);
            while let Some(u) = q.pop_front() {
                inq[u] = false;
                let du = dist[u].unwrap();
                for &ei in &self.adj[u] {
                    let e = &self.edges[ei];
                    if e.cap <= 0 {
                        continue;
                    }
                    let nd = du.add(e.cost);
                    if dist[e.to].map(|d| nd < d).unwrap_or(true) {
                        dist[e.to] = Some(nd);
                        prev[e.to] = ei;
                        if !inq[e.to] {
                            inq[e.to] = true;
                            q.push_back(e.to);
                        }
                    }
                }
            }
            let dt = dist[t]?;
            // bottleneck
            let mut f = need - sent;
            let mut v = t;
            while v != s {
                let ei = prev[v];
                f = f.min(self.edges[ei].cap);
                v = self.edges[ei ^ 1].to;
            }
            let mut v = t;
            while v != s {
                let ei = prev[v];
                self.edges[ei].cap -= f;
                self.edges[ei ^ 1].cap += f;
                v = self.edges[ei ^ 1].to;
            }
            sent += f;
            total = total.add(dt.scale(f));
        }
        Some(total)
    }
}

/// The covering circulation of one vehicle type as the property describes it:
/// every trip of the type needs min(need, limit) .. limit vehicles, every allotted slot
/// exactly its allotment, any two connectable activities may follow each other, every
/// vehicle starts and ends at a depot (per depot as many end as start, at most the
/// per-type capacity), the overflow depot is unlimited.
pub fn optimum_for_type(inst: &Inst, t: usize, allot: &[(usize, u64)]) -> Option<(i64, i128)> {
    let mut acts: Vec<(N, i64, Option<i64>)> = Vec::new();
    for i in 0..inst.trips.len() {
        if inst.trips[i].vtype != t {
            continue;
        }
        let limit = inst.limit(i);
        let need = inst.need(i);
        let lo = match limit {
            Some(l) => need.min(l),
            None => need,
        };
        acts.push((N::T(i), lo as i64, limit.map(|x| x as i64)));
    }
    for &(s, c) in allot {
        if c > 0 {
            acts.push((N::S(s), c as i64, Some(c as i64)));
        }
    }
    let na = acts.len();
    let nd = inst.depots.len();
    let mut g = Graph::new(2 * na + 2 * nd);
    let din = |d: usize| 2 * na + 2 * d;
    let dout = |d: usize| 2 * na + 2 * d + 1;
    for (i, &(n, lo, hi)) in acts.iter().enumerate() {
        g.add(2 * i, 2 * i + 1, lo, hi, LexCost(0, inst.activity_cost(n)));
        for (j, &(m, _, _)) in acts.iter().enumerate() {
            if i != j && inst.connectable(n, m) {
                g.add(2 * i + 1, 2 * j, 0, None, LexCost(0, inst.link_cost(n, m)));
            }
        }
        for d in 0..nd {
            g.add(dout(d), 2 * i, 0, None, LexCost(0, inst.link_cost(N::SD(d), n)));
            g.add(2 * i + 1, din(d), 0, None, LexCost(0, inst.link_cost(n, N::ED(d))));
        }
    }
    for d in 0..nd {
        g.add(
            din(d),
            dout(d),
            0,
            inst.depots[d].cap_for(t).map(|x| x as i64),
            LexCost(1, 0),
        );
    }
    g.solve().map(|c| (c.0, c.1))
}

#[cfg(test)]
mod tests {
    use super::*;

    #[test]
    fn tiny_circulation() {
        // two nodes a,b each needing one unit, chainable (cost 5) or separate via depot
        // (vehicle cost (1,0), legs cost 1 each)
        // nodes: a_in 0, a_out 1, b_in 2, b_out 3, d_in 4, d_out 5
        let mut g = Graph::new(6);
        g.add(0, 1, 1, Some(1), LexCost(0, 10));
        g.add(2, 3, 1, Some(1), LexCost(0, 10));
        g.add(1, 2, 0, None, LexCost(0, 5));
        g.add(5, 0, 0, None, LexCost(0, 1));
        g.add(5, 2, 0, None, LexCost(0, 1));
        g.add(1, 4, 0, None, LexCost(0, 1));
        g.add(3, 4, 0, None, LexCost(0, 1));
        g.add(4, 5, 0, None, LexCost(1, 0));
        assert_eq!(g.solve(), Some(LexCost(1, 27)));
    }

    #[test]
    fn infeasible_when_depot_capacity_zero() {
        let mut g = Graph::new(4);
        g.add(0, 1, 1, Some(1), LexCost(0, 0));
        g.add(3, 0, 0, None, LexCost(0, 0));
        g.add(1, 2, 0, None, LexCost(0, 0));
        g.add(2, 3, 0, Some(0), LexCost(1, 0));
        assert_eq!(g.solve(), None);
    }

    #[test]
    fn prefers_fewer_vehicles_over_cost() {
        // chaining costs 1000 but saves a vehicle
        let mut g = Graph::new(6);
        g.add(0, 1, 1, Some(1), LexCost(0, 0));
        g.add(2, 3, 1, Some(1), LexCost(0, 0));
        g.add(1, 2, 0, None, LexCost(0, 1000));
        g.add(5, 0, 0, None, LexCost(0, 0));
        g.add(5, 2, 0, None, LexCost(0, 0));
        g.add(1, 4, 0, None, LexCost(0, 0));
        g.add(3, 4, 0, None, LexCost(0, 0));
        g.add(4, 5, 0, None, LexCost(1, 0));
        assert_eq!(g.solve(), Some(LexCost(1, 1000)));
    }
}
