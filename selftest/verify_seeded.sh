#!/bin/bash
# Verify a sub-agent's seeded defect in its scratch worktree:
#   selftest/verify_seeded.sh <worktree> <demo test file rel. to worktree> <cargo test args for the demo>
# checks: patch == working-tree diff, demo fails with change, baseline 53 pass with change, demo passes without.
set -u
wt="$1"; demo="$2"; shift 2
cd "$wt" || exit 2
T="/tmp/verify_$(basename "$wt")"   # per-worktree scratch names: several verifications may run at once
export CARGO_NET_OFFLINE=true RUST_BACKTRACE=0
git diff > ${T}_cur.diff
if diff -q ${T}_cur.diff MUTANT/patch.diff >/dev/null; then echo "patch_matches_worktree=yes"; else echo "patch_matches_worktree=NO"; fi
timeout 900 cargo test --offline "$@" >${T}_demo_with.log 2>&1; rc=$?
echo "demo_with_change_exit=$rc ($(grep -E '^test result' ${T}_demo_with.log | tail -1))"
mv "$demo" ${T}_demo_file.rs
timeout 1800 cargo test --workspace --no-fail-fast --offline >${T}_base.log 2>&1
passed=$(grep -E '^test result' ${T}_base.log | sed -E 's/.* ([0-9]+) passed.*/\1/' | paste -sd+ | bc)
failed=$(grep -E '^test result' ${T}_base.log | sed -E 's/.* ([0-9]+) failed.*/\1/' | paste -sd+ | bc)
echo "baseline_with_change passed=$passed failed=$failed"
mv ${T}_demo_file.rs "$demo"
git apply -R MUTANT/patch.diff || { echo "cannot revert"; exit 2; }
timeout 900 cargo test --offline "$@" >${T}_demo_without.log 2>&1; rc=$?
echo "demo_without_change_exit=$rc ($(grep -E '^test result' ${T}_demo_without.log | tail -1))"
git apply MUTANT/patch.diff
