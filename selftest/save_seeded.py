#!/usr/bin/env python3
"""save_seeded.py <wt dir> <name> <verify log section file> <caught-by text>: copy a verified sub-agent mutant into /verif/seeded/<name>/"""
import json,sys,shutil,os,glob,subprocess
wt,name,verify,caught=sys.argv[1:5]
dst=f'/verif/seeded/{name}'
os.makedirs(dst,exist_ok=True)
shutil.copy(f'{wt}/MUTANT/patch.diff',dst+'/patch.diff')
for f in glob.glob(f'{wt}/MUTANT/*'):
    b=os.path.basename(f)
    if b in ('patch.diff','meta.json') or os.path.isdir(f): continue
    shutil.copy(f,dst+'/'+b)
am=json.load(open(f'{wt}/MUTANT/meta.json'))
meta={
 'property': am.get('property'),
 'summary': am.get('summary'),
 'needs_to_manifest': am.get('needs_to_manifest'),
 'files': am.get('files'),
 'origin': 'written by an independent sub-agent that saw only the property text and a scratch worktree of /repo (commit %s), nothing from /verif' % subprocess.run(['git','-C',wt,'rev-parse','--short','HEAD'],capture_output=True,text=True).stdout.strip(),
 'verified_by_me_in_scratch_worktree': open(verify).read().strip().splitlines(),
 'what_i_ran': ['selftest/verify_seeded.sh <worktree> <demo file> <cargo test args> (patch == worktree diff, demo fails with change, 53 baseline tests pass with change, demo passes without change)', 'selftest/run_mutant.sh seeded/<name>/patch.diff <checks> (git -C /repo apply, ./check <ID> quick, git -C /repo checkout -- .)'],
 'detected_by': caught,
}
json.dump(meta,open(dst+'/meta.json','w'),indent=1)
print('saved',dst)
