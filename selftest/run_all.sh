#!/bin/bash
# Re-run the whole self-test: every fix revert and every seeded defect against the checks
# listed for it; writes selftest/RESULTS_LAST_RUN.md (kill matrix of this run).
# Takes 1.5-2.5 h; /repo must be clean and nothing else may build from it meanwhile.
set -u
cd /verif
out=selftest/RESULTS_LAST_RUN.md
{
echo "# Kill matrix of the last complete self-test run"
echo
echo "started: $(date -u +%FT%TZ), /repo $(git -C /repo log --format=%h -1), /verif $(git log --format=%h -1), tier ${TIER:-quick}"
echo
echo "| patch | check | exit | first signature |"
echo "|---|---|---|---|"
} > $out
run_one() { # patch ids...
  local patch="$1"; shift
  # FIRST_ONLY=1: only the first listed check of every patch (the property's own check, or the
  # strongest one where the own check is end-to-end and known not to see the defect)
  if [ "${FIRST_ONLY:-0}" = "1" ]; then set -- "$1"; fi
  selftest/run_mutant.sh "$patch" "$@" 2>&1 | grep -E "^C[0-9]+ exit=" | while read -r id ex rest; do
    sig=$(echo "$rest" | sed -E 's/violation signature=([^ ]+).*/\1/' | cut -c1-110)
    echo "| $(basename $(dirname $patch))/$(basename $patch) | $id | ${ex#exit=} | $sig |" >> $out
  done
}
while read -r p ids; do case "$p" in \#*|"") continue;; esac; run_one selftest/reverts/$p $ids; done < selftest/reverts/EXPECT.txt
while read -r n ids; do case "$n" in \#*|"") continue;; esac; run_one seeded/$n/patch.diff $ids; done < selftest/EXPECT_SEEDED.txt
echo >> $out
echo "finished: $(date -u +%FT%TZ)" >> $out
own_missed=$(grep -c "| 0 |" $out)
echo "rows with exit 0 (survived that check): $own_missed" >> $out
