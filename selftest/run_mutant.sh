#!/bin/bash
# Apply one patch to /repo, run the quick (or $TIER) checks of the given properties, restore /repo.
#   selftest/run_mutant.sh <patch.diff> <ID> [<ID> ...]
# Prints one line per check: "<ID> exit=<rc> first signature"; never leaves /repo modified.
set -u
patch="$(realpath "$1")"; shift
tier="${TIER:-quick}"
if ! git -C /repo diff --quiet; then echo "refusing: /repo has uncommitted changes"; exit 2; fi
if ! git -C /repo apply "$patch"; then echo "patch does not apply: $patch"; exit 2; fi
# evidence files are rewritten by every run: keep the ones of the unchanged tree aside and put them back,
# so that evidence written while a defect was applied can never be committed by accident
keep="$(mktemp -d /tmp/evidence_keep.XXXXXX)"; cp -a /verif/evidence/. "$keep"/ 2>/dev/null
trap 'git -C /repo checkout -- . >/dev/null 2>&1; cp -a "$keep"/. /verif/evidence/ 2>/dev/null; rm -rf "$keep"' EXIT
cd /verif
for id in "$@"; do
  out="$(./check "$id" "$tier" 2>&1)"; rc=$?
  sig="$(echo "$out" | grep '^violation signature' | head -2 | cut -c1-220 | tr '\n' ' ')"
  [ -z "$sig" ] && sig="$(echo "$out" | grep -E '^(INCONCLUSIVE|BUILD FAILED|KNOWN-FINDING)' | head -1 | cut -c1-200)"
  echo "$id exit=$rc $sig"
done
